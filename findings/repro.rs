//! Reproduction suite for the defects found in cao-lang (pinned snapshot 45a51c2).
//!
//! This file is documentation / triage evidence only. It is kept at /verif/findings/repro.rs and is
//! copied to `cao-lang/tests/repro.rs` of a scratch worktree to be run:
//!
//! ```text
//! cargo test -p cao-lang --offline --test repro -- --test-threads 4
//! ```
//!
//! Conventions
//! - one `#[test]` per defect, the doc comment of the test carries the key of the defect
//! - a test PASSES when the behaviour is correct
//! - every test body that may hang, panic, overflow the native stack or touch freed memory is run in
//!   a child process (`isolated`): the test binary re-executes itself with `--exact <test name>` and
//!   an environment variable that tells the child to run the body in-process. The parent waits with a
//!   timeout, kills the child when it expires and fails with the exit status and the output of the
//!   child. This way the suite always terminates and always reports every test, even when a body
//!   aborts the process (stack overflow, SIGSEGV) or never returns.
//! - the memory-safety tests do not rely on crashes: they are built so that the freed cell is
//!   reused by a *valid* object of a different content, and they check the (wrong) result. The
//!   isolation is only a safety net.
//! - several GC tests register a native function `gc` that calls `vm.runtime_data.gc()`. A
//!   collection can be triggered by any allocation, so calling it where the script (or a native
//!   function) could allocate is equivalent to an allocation that crosses the GC threshold there,
//!   but deterministic.

use std::io::Read;
use std::process::{Command, Stdio};
use std::time::{Duration, Instant};

use cao_lang::collections::handle_table::HandleTable;
use cao_lang::collections::hash_map::CaoHashMap;
use cao_lang::compiler::{Module, UnaryExpression};
use cao_lang::prelude::*;
use cao_lang::vm::runtime::cao_lang_object::CaoLangObject;

// ------------------------------------------------------------------------------------------------
// harness
// ------------------------------------------------------------------------------------------------

const CHILD_ENV: &str = "CAO_REPRO_CHILD";
const CHILD_TIMEOUT: Duration = Duration::from_secs(30);

/// Run `body` in a child process (see the module docs). `name` must be the name of the calling test
fn isolated(name: &str, body: impl FnOnce()) {
    if std::env::var(CHILD_ENV).ok().as_deref() == Some(name) {
        body();
        return;
    }
    let exe = std::env::current_exe().expect("current_exe");
    let mut child = Command::new(exe)
        .args([name, "--exact", "--test-threads", "1", "--nocapture"])
        .env(CHILD_ENV, name)
        .env("RUST_BACKTRACE", "0")
        .stdin(Stdio::null())
        .stdout(Stdio::piped())
        .stderr(Stdio::piped())
        .spawn()
        .expect("spawn child");
    let mut out = child.stdout.take().unwrap();
    let mut err = child.stderr.take().unwrap();
    let out_t = std::thread::spawn(move || {
        let mut s = Vec::new();
        let _ = out.read_to_end(&mut s);
        String::from_utf8_lossy(&s).into_owned()
    });
    let err_t = std::thread::spawn(move || {
        let mut s = Vec::new();
        let _ = err.read_to_end(&mut s);
        String::from_utf8_lossy(&s).into_owned()
    });
    let start = Instant::now();
    let status = loop {
        match child.try_wait().expect("try_wait") {
            Some(status) => break Some(status),
            None if start.elapsed() > CHILD_TIMEOUT => {
                let _ = child.kill();
                let _ = child.wait();
                break None;
            }
            None => std::thread::sleep(Duration::from_millis(20)),
        }
    };
    let out = out_t.join().unwrap_or_default();
    let err = err_t.join().unwrap_or_default();
    let tail = |s: &str| {
        let lines: Vec<&str> = s.lines().filter(|l| !l.trim().is_empty()).collect();
        let n = lines.len().saturating_sub(12);
        lines[n..].join("\n    ")
    };
    match status {
        Some(status) if status.success() => {}
        Some(status) => panic!(
            "[{name}] FAILED in the child process: {status}\n  stdout:\n    {}\n  stderr:\n    {}",
            tail(&out),
            tail(&err)
        ),
        None => panic!(
            "[{name}] TIMEOUT: the child process did not finish in {CHILD_TIMEOUT:?} (hang)\n  stderr:\n    {}",
            tail(&err)
        ),
    }
}

fn program(functions: Vec<(&str, Function)>) -> CaoProgram {
    CaoProgram {
        imports: Default::default(),
        submodules: Default::default(),
        functions: functions
            .into_iter()
            .map(|(n, f)| (n.to_string(), f))
            .collect(),
    }
}

fn func(cards: Vec<Card>) -> Function {
    Function::default().with_cards(cards)
}

fn lit(s: &str) -> Card {
    Card::string_card(s)
}

fn int(i: i64) -> Card {
    Card::scalar_int(i)
}

fn closure(arguments: &[&str], cards: Vec<Card>) -> Card {
    CardBody::Closure(Box::new(Function {
        arguments: arguments.iter().map(|s| s.to_string()).collect(),
        cards,
    }))
    .into()
}

fn add(a: Card, b: Card) -> Card {
    CardBody::Add(Box::new([a, b])).into()
}

fn equals(a: Card, b: Card) -> Card {
    CardBody::Equals(Box::new([a, b])).into()
}

/// `call_native("gc")` with the (nil) result stored in a global, so nothing is left on the stack
fn gc_card() -> Card {
    Card::set_global_var("_gc", Card::call_native("gc", vec![]))
}

fn native_gc<T>(vm: &mut Vm<T>) -> Result<Value, ExecutionErrorPayload> {
    vm.runtime_data.gc();
    Ok(Value::Nil)
}

fn vm_with_gc() -> Vm<'static, ()> {
    let mut vm = Vm::new(()).unwrap().with_max_iter(10_000_000);
    vm.register_native_function("gc", native_gc::<()>).unwrap();
    vm
}

fn global_str<T>(vm: &Vm<T>, program: &CaoCompiledProgram, name: &str) -> String {
    let v = vm
        .read_var_by_name(name, &program.variables)
        .unwrap_or_else(|| panic!("global {name} was not set"));
    match unsafe { v.as_str() } {
        Some(s) => s.to_string(),
        None => format!("<not a string: {}>", v.type_name()),
    }
}

fn global_int<T>(vm: &Vm<T>, program: &CaoCompiledProgram, name: &str) -> i64 {
    let v = vm
        .read_var_by_name(name, &program.variables)
        .unwrap_or_else(|| panic!("global {name} was not set"));
    v.as_int()
        .unwrap_or_else(|| panic!("global {name} is not an integer: {}", v.type_name()))
}

/// (offset, mnemonic) pairs of the disassembly
fn disassembly(program: &CaoCompiledProgram) -> Vec<(u32, String)> {
    program
        .disassemble_string()
        .lines()
        .filter_map(|l| {
            let mut it = l.split('\t');
            let off = it.next()?.trim().parse().ok()?;
            let name = it.next()?.trim().to_string();
            Some((off, name))
        })
        .collect()
}

/// name of the card at `index`, or the error of the lookup
fn card_name(ir: &CaoProgram, index: &CardIndex) -> String {
    match ir.get_card(index) {
        Ok(c) => c.name().to_string(),
        Err(err) => format!("<{err}>"),
    }
}

fn is_timeout(p: &ExecutionErrorPayload) -> bool {
    match p {
        ExecutionErrorPayload::Timeout => true,
        ExecutionErrorPayload::TaskFailure { error, .. } => is_timeout(error),
        _ => false,
    }
}

fn is_oom(p: &ExecutionErrorPayload) -> bool {
    match p {
        ExecutionErrorPayload::OutOfMemory => true,
        ExecutionErrorPayload::TaskFailure { error, .. } => is_oom(error),
        _ => false,
    }
}

/// bytes charged by the VM allocator for one object cell
fn cell_charge() -> usize {
    std::mem::size_of::<CaoLangObject>() + std::mem::align_of::<CaoLangObject>()
}

// ------------------------------------------------------------------------------------------------
// C10  bytecode layout / trace table
// ------------------------------------------------------------------------------------------------

/// C10/W/NativeFunctionPointer/span-vs-decode (also C10/W/NativeFunctionPointer/disasm-advance)
/// fix: ab7c12d
///
/// `Instruction::span(NativeFunctionPointer)` was 6 for a 5 byte instruction: the disassembler
/// skipped the opcode that follows a NativeFunctionPointer.
#[test]
fn c10_w_native_function_pointer_span_vs_decode() {
    isolated("c10_w_native_function_pointer_span_vs_decode", || {
        // bytecode: 0 NativeFunctionPointer(+4) | 5 CallFunction | 6 Exit | 7 Exit
        let p = program(vec![(
            "main",
            func(vec![Card::dynamic_call(
                CardBody::NativeFunction("foo".to_string()),
                vec![],
            )]),
        )]);
        let p = compile(p, None).unwrap();
        let dis = disassembly(&p);
        assert_eq!(dis[0], (0, "NativeFunctionPointer".to_string()));
        assert!(
            dis.contains(&(5, "CallFunction".to_string())),
            "the instruction after NativeFunctionPointer (offset 5, CallFunction) is missing from the disassembly: {dis:?}"
        );
    });
}

/// C10/T/raw/CloseUpvalue
/// fix: f2739d3
///
/// `scope_end` pushed CloseUpvalue (which can fail at runtime) as a raw byte, without a trace entry
#[test]
fn c10_t_raw_close_upvalue() {
    isolated("c10_t_raw_close_upvalue", || {
        let p = program(vec![(
            "main",
            func(vec![
                Card::set_var("foo", lit("winnie")),
                Card::set_var(
                    "bar",
                    closure(&[], vec![Card::set_global_var("g", Card::read_var("foo"))]),
                ),
            ]),
        )]);
        let p = compile(p, None).unwrap();
        let dis = disassembly(&p);
        let offsets: Vec<u32> = dis
            .iter()
            .filter(|(_, n)| n == "CloseUpvalue")
            .map(|(o, _)| *o)
            .collect();
        assert!(!offsets.is_empty(), "expected a CloseUpvalue: {dis:?}");
        for off in offsets {
            assert!(
                p.trace.get(&off).is_some(),
                "CloseUpvalue at offset {off} has no trace entry"
            );
        }
    });
}

// ------------------------------------------------------------------------------------------------
// C16  card tree editing
// ------------------------------------------------------------------------------------------------

/// C16/S/insert_child/Call/out-of-range-succeeds (also .../CallNative/...)
/// fix: f7170d0
///
/// `Card::insert_child(len + 1, c)` on Call / CallNative returned `Ok(())` and dropped `c`
#[test]
fn c16_s_insert_child_call_out_of_range_succeeds() {
    let mut call = Card::call_function("f", vec![int(1)]);
    let res = call.insert_child(2, int(42));
    assert!(
        res.is_err(),
        "Call: insert_child(len + 1) reported success, the card has {} children",
        call.num_children()
    );
    assert_eq!(call.num_children(), 1);

    let mut call = Card::call_native("f", vec![]);
    let res = call.insert_child(1, int(42));
    assert!(
        res.is_err(),
        "CallNative: insert_child(len + 1) reported success, the card has {} children",
        call.num_children()
    );

    // in-range insertion still works
    let mut call = Card::call_function("f", vec![int(1)]);
    call.insert_child(1, int(2)).unwrap();
    assert_eq!(call.num_children(), 2);
}

// ------------------------------------------------------------------------------------------------
// C15  error locations
// ------------------------------------------------------------------------------------------------

fn error_index(cards: Vec<Card>) -> (ExecutionErrorPayload, Vec<String>) {
    let p = program(vec![("main", func(cards))]);
    let p = compile(p, None).unwrap();
    let mut vm = Vm::new(()).unwrap();
    let err = vm.run(&p).expect_err("the program must fail");
    (
        err.payload,
        err.trace.iter().map(|t| t.index.to_string()).collect(),
    )
}

/// C15/P/<Instruction>/<n> (53 sites)
/// fix: 243ba5d
///
/// every arm of `Vm::_run` located its error with `*instr_ptr` after the opcode (and sometimes the
/// operands) had been consumed: the error was attributed to the *next* instruction
#[test]
fn c15_p_error_is_located_at_the_failing_instruction() {
    isolated("c15_p_error_is_located_at_the_failing_instruction", || {
        let mut failures = vec![];
        // CallNative of an unknown function, followed by another card
        let (pl, trace) = error_index(vec![Card::call_native("no-such-function", vec![]), int(1)]);
        if trace.first().map(|s| s.as_str()) != Some("0.0") {
            failures.push(format!("CallNative: {pl:?} located at {trace:?}, expected 0.0"));
        }
        // GetProperty on a non-table
        let (pl, trace) = error_index(vec![Card::get_property(int(1), int(2)), int(1)]);
        if trace.first().map(|s| s.as_str()) != Some("0.0") {
            failures.push(format!("GetProperty: {pl:?} located at {trace:?}, expected 0.0"));
        }
        // CallFunction on a non-function
        let (pl, trace) = error_index(vec![Card::dynamic_call(int(1), vec![]), int(1)]);
        if trace.first().map(|s| s.as_str()) != Some("0.0") {
            failures.push(format!("CallFunction: {pl:?} located at {trace:?}, expected 0.0"));
        }
        // NthRow with a negative index, second card of the function
        let (pl, trace) = error_index(vec![
            Card::set_var("t", CardBody::CreateTable),
            CardBody::Get(Box::new([Card::read_var("t"), int(-1)])).into(),
            int(1),
        ]);
        if trace.first().map(|s| s.as_str()) != Some("0.1") {
            failures.push(format!("NthRow: {pl:?} located at {trace:?}, expected 0.1"));
        }
        // ReadGlobalVar of a variable that was never set
        let (pl, trace) = error_index(vec![
            Card::set_global_var("a", Card::read_var("never_set")),
            int(1),
        ]);
        if trace.first().map(|s| s.as_str()) != Some("0.0.0") {
            failures.push(format!("ReadGlobalVar: {pl:?} located at {trace:?}, expected 0.0.0"));
        }
        assert!(failures.is_empty(), "{}", failures.join("\n"));
    });
}

/// C15/I/Repeat
/// fix: 69e2442
///
/// the `n` card of a Repeat was compiled with index [.., 0, 0] instead of [.., 0]
#[test]
fn c15_i_repeat() {
    isolated("c15_i_repeat", || {
        let ir = program(vec![(
            "main",
            func(vec![Card::repeat(
                Card::call_native("no-such-function", vec![]),
                None,
                CardBody::ScalarNil,
            )]),
        )]);
        let p = compile(ir.clone(), None).unwrap();
        // static: the trace entry of the CallNative instruction must resolve to the `n` card
        let dis = disassembly(&p);
        let (off, _) = dis.iter().find(|(_, n)| n == "CallNative").unwrap();
        let index = &p.trace.get(off).unwrap().index;
        assert_eq!(
            card_name(&ir, index),
            "Call Native Function",
            "the trace entry of Repeat.n is {index}; Card::get_child numbers n as 0.0.0"
        );
        // dynamic: the runtime error inside `n` is reported at the `n` card
        let mut vm = Vm::new(()).unwrap();
        let err = vm.run(&p).unwrap_err();
        assert_eq!(
            card_name(&ir, &err.trace[0].index),
            "Call Native Function",
            "runtime error located at {}",
            err.trace[0].index
        );
    });
}

/// C15/I/DynamicCall
/// fix: 69e2442
///
/// DynamicCall compiled its arguments at [i] and the function at [n]; `Card::get_child` numbers the
/// function as child 0 and the arguments as 1..=n
#[test]
fn c15_i_dynamic_call() {
    isolated("c15_i_dynamic_call", || {
        let ir = program(vec![(
            "main",
            func(vec![Card::dynamic_call(
                Card::call_native("no-such-function", vec![]),
                vec![int(7)],
            )]),
        )]);
        let p = compile(ir.clone(), None).unwrap();
        let dis = disassembly(&p);
        let (off, _) = dis.iter().find(|(_, n)| n == "CallNative").unwrap();
        let index = &p.trace.get(off).unwrap().index;
        assert_eq!(
            card_name(&ir, index),
            "Call Native Function",
            "the trace entry of DynamicCall.function is {index}; Card::get_child numbers it as 0.0.0"
        );
        let (off, _) = dis.iter().find(|(_, n)| n == "ScalarInt").unwrap();
        let index = &p.trace.get(off).unwrap().index;
        assert_eq!(
            card_name(&ir, index),
            "ScalarInt",
            "the trace entry of DynamicCall.args[0] is {index}; Card::get_child numbers it as 0.0.1"
        );
        let mut vm = Vm::new(()).unwrap();
        let err = vm.run(&p).unwrap_err();
        assert_eq!(
            card_name(&ir, &err.trace[0].index),
            "Call Native Function",
            "runtime error located at {}",
            err.trace[0].index
        );
    });
}

// ------------------------------------------------------------------------------------------------
// C02  GC roots
// ------------------------------------------------------------------------------------------------

/// C02/Roots/RuntimeData.open_upvalues (also C02/M/Upvalue.next)
/// fix: f658b81
///
/// Open upvalues were only reachable through the closures that captured them. When the closure
/// dies before the captured local goes out of scope the upvalue object is swept, but it is still
/// linked into `RuntimeData::open_upvalues`: the list is walked by the next capture and when the
/// scope ends (CloseUpvalue / Return).
///
/// Detection: after the collection a few strings are allocated, one of them reuses the cell of the
/// swept upvalue; `CloseUpvalue` at the end of main then finds a String in the open-upvalue list
/// and fails with InvalidUpvalue.
#[test]
fn c02_roots_runtime_data_open_upvalues() {
    isolated("c02_roots_runtime_data_open_upvalues", || {
        let p = program(vec![(
            "main",
            func(vec![
                Card::set_var("x", lit("hello")),
                Card::set_var(
                    "c",
                    closure(&[], vec![Card::set_global_var("g0", Card::read_var("x"))]),
                ),
                // the closure is garbage now, the captured local is still alive
                Card::set_var("c", CardBody::ScalarNil),
                gc_card(),
                Card::set_var("s1", lit("junk-1")),
                Card::set_var("s2", lit("junk-2")),
                Card::set_var("s3", lit("junk-3")),
                Card::set_var("s4", lit("junk-4")),
                Card::set_global_var("g", Card::read_var("x")),
            ]),
        )]);
        let p = compile(p, None).unwrap();
        let mut vm = vm_with_gc();
        let res = vm.run(&p);
        assert!(
            res.is_ok(),
            "a correct program failed after a collection: {:?}",
            res.unwrap_err().payload
        );
        assert_eq!(global_str(&vm, &p, "g"), "hello");
    });
}

/// C02/P/protected-objects-traced
/// fix: 120707c
///
/// An object protected by an `ObjectGcGuard` survived the sweep, but it was not traced: the objects
/// it refers to were swept. This is the pattern of the doc example of `OwnedValue`
/// (init_table, init_string, insert, into_inner).
///
/// Detection: the string stored in the guarded table is swept, the next string of the same size
/// reuses its cell: the table reads "zzzzz" instead of "hello".
#[test]
fn c02_p_protected_objects_traced() {
    isolated("c02_p_protected_objects_traced", || {
        let mut vm = Vm::new(()).unwrap();
        let mut table = vm.init_table().unwrap();
        let s = vm.init_string("hello").unwrap();
        // the guard of the string is given up: the table is its only owner now
        let s = Value::Object(s.into_inner());
        table
            .as_table_mut()
            .unwrap()
            .insert(Value::Integer(1), s)
            .unwrap();
        vm.runtime_data.gc();
        let _other = vm.init_string("zzzzz").unwrap();
        let v = *table
            .as_table()
            .unwrap()
            .get(&Value::Integer(1))
            .expect("entry 1");
        let got = unsafe { v.as_str() }.map(|s| s.to_string());
        assert_eq!(
            got.as_deref(),
            Some("hello"),
            "the child of a GC-protected table was collected"
        );
    });
}

/// C02/Roots/CallFrame.closure (also C02/Roots/RuntimeData.call_stack)
/// fix: 0457e46
///
/// A closure that is called as a temporary (`make()()`) is popped from the value stack by
/// CallFunction; the call frame only keeps a raw pointer into the closure object. A collection
/// while its body runs swept the executing closure (and its upvalues).
///
/// Detection: the collection sweeps 4 cells: the upvalue of the executing closure, the closure, the
/// string "AAA" (only the swept upvalue refers to it) and the function object of `make`; they are
/// freed in this order and the allocator (glibc tcache, LIFO) hands them out again in the reverse
/// order. The body then allocates two strings (they take the cells of the function object and of
/// "AAA") and another closure, which takes the cell of the executing one; `read_var("a")`
/// (ReadUpvalue 0) then reads upvalue 0 of the *new* closure and yields "LOCAL" instead of "AAA".
/// (Without the filler strings the cell is reused by an upvalue object and the VM reads its bytes
/// as a closure: SIGSEGV.)
#[test]
fn c02_roots_call_frame_closure() {
    isolated("c02_roots_call_frame_closure", || {
        let p = program(vec![
            (
                "main",
                func(vec![Card::dynamic_call(
                    Card::call_function("make", vec![]),
                    vec![],
                )]),
            ),
            (
                "make",
                func(vec![
                    Card::set_var("a", lit("AAA")),
                    Card::return_card(closure(
                        &[],
                        vec![
                            Card::set_var("loc", lit("LOCAL")),
                            gc_card(),
                            Card::set_var("filler1", lit("filler-1")),
                            Card::set_var("filler2", lit("filler-2")),
                            Card::set_var(
                                "inner",
                                closure(
                                    &[],
                                    vec![Card::set_global_var("dummy", Card::read_var("loc"))],
                                ),
                            ),
                            Card::set_global_var("g", Card::read_var("a")),
                        ],
                    )),
                ]),
            ),
        ]);
        let p = compile(p, None).unwrap();
        let mut vm = vm_with_gc();
        let res = vm.run(&p);
        assert!(res.is_ok(), "run failed: {:?}", res.unwrap_err().payload);
        assert_eq!(
            global_str(&vm, &p, "g"),
            "AAA",
            "the executing closure was collected and its cell reused"
        );
    });
}

fn check_ab_table(vm: &Vm<()>, p: &CaoCompiledProgram, n: usize) -> Vec<String> {
    let t = vm.read_var_by_name("t", &p.variables).expect("t");
    let t = unsafe { t.as_table() }.expect("t is a table");
    let mut bad = vec![];
    if t.len() != 2 * n {
        bad.push(format!("len = {}, expected {}", t.len(), 2 * n));
    }
    for i in 0..2 * n {
        let expected = if i % 2 == 0 { "aaaa" } else { "bbbbbbbb" };
        let got = t.get(&Value::Integer(i as i64)).copied();
        let got_s = match got {
            Some(v) => match unsafe { v.as_str() } {
                Some(s) => s.to_string(),
                None => format!("<{}>", v.type_name()),
            },
            None => "<missing>".to_string(),
        };
        if got_s != expected {
            bad.push(format!("t[{i}] = {got_s:?}, expected {expected:?}"));
        }
    }
    bad
}

/// C02/R/_run[SetProperty|AppendTable|NthRow]/*
/// fix: ac832bd
///
/// SetProperty, AppendTable and NthRow popped their operands and then called something that
/// allocates (growing the table / building the row). A collection in that allocation swept the
/// operand, which was then stored in (or read from) the table.
///
/// AppendTable / SetProperty: 600 x ("aaaa", "bbbbbbbb") are appended to a global table on a
/// default VM (400 KiB limit, first collection at 100 KiB). Nothing is garbage, so the first
/// collection is triggered by the allocation that grows the table from 681 to 1021 buckets; the
/// only unrooted object at that point is the string being appended. Its cell is reused by the next
/// string literal, so the table holds a wrong string at that position.
///
/// NthRow: `Get(mk(), 0)` where the table is a temporary returned by a function; the row is built
/// by 3 object allocations.
#[test]
fn c02_r_run_set_property_append_table_nth_row() {
    isolated("c02_r_run_set_property_append_table_nth_row", || {
        let mut failures = vec![];
        const N: usize = 600;

        // AppendTable
        {
            let p = program(vec![(
                "main",
                func(vec![
                    Card::set_global_var("t", CardBody::CreateTable),
                    Card::repeat(
                        int(N as i64),
                        None,
                        Card::composite_card(
                            "body",
                            vec![
                                CardBody::AppendTable(Box::new([lit("aaaa"), Card::read_var("t")]))
                                    .into(),
                                CardBody::AppendTable(Box::new([
                                    lit("bbbbbbbb"),
                                    Card::read_var("t"),
                                ]))
                                .into(),
                            ],
                        ),
                    ),
                ]),
            )]);
            let p = compile(p, None).unwrap();
            let mut vm = vm_with_gc();
            match vm.run(&p) {
                Err(err) => failures.push(format!("AppendTable: run failed: {:?}", err.payload)),
                Ok(()) => {
                    let bad = check_ab_table(&vm, &p, N);
                    if !bad.is_empty() {
                        failures.push(format!(
                            "AppendTable: {} wrong entries, first: {}",
                            bad.len(),
                            bad[0]
                        ));
                    }
                }
            }
        }
        // SetProperty
        {
            let p = program(vec![(
                "main",
                func(vec![
                    Card::set_global_var("t", CardBody::CreateTable),
                    Card::repeat(
                        int(N as i64),
                        Some("i".to_string()),
                        Card::composite_card(
                            "body",
                            vec![
                                Card::set_property(
                                    lit("aaaa"),
                                    Card::read_var("t"),
                                    add(Card::read_var("i"), Card::read_var("i")),
                                ),
                                Card::set_property(
                                    lit("bbbbbbbb"),
                                    Card::read_var("t"),
                                    add(add(Card::read_var("i"), Card::read_var("i")), int(1)),
                                ),
                            ],
                        ),
                    ),
                ]),
            )]);
            let p = compile(p, None).unwrap();
            let mut vm = vm_with_gc();
            match vm.run(&p) {
                Err(err) => failures.push(format!("SetProperty: run failed: {:?}", err.payload)),
                Ok(()) => {
                    let bad = check_ab_table(&vm, &p, N);
                    if !bad.is_empty() {
                        failures.push(format!(
                            "SetProperty: {} wrong entries, first: {}",
                            bad.len(),
                            bad[0]
                        ));
                    }
                }
            }
        }
        // NthRow, the table is a temporary. `pad` shifts the allocation phase so that the
        // collections hit different allocations
        for pad in 0..12 {
            let mut cards = vec![Card::set_global_var("bad", int(0))];
            for i in 0..pad {
                cards.push(Card::set_global_var(format!("pad{i}"), lit("pad-pad-pad")));
            }
            cards.push(Card::repeat(
                int(350),
                None,
                Card::composite_card(
                    "body",
                    vec![
                        Card::set_var(
                            "row",
                            CardBody::Get(Box::new([Card::call_function("mk", vec![]), int(0)])),
                        ),
                        CardBody::IfFalse(Box::new([
                            equals(Card::read_var("row.value"), lit("elem")),
                            Card::set_global_var("bad", add(Card::read_var("bad"), int(1))),
                        ]))
                        .into(),
                    ],
                ),
            ));
            let p = program(vec![
                ("main", func(cards)),
                (
                    "mk",
                    func(vec![
                        Card::set_var("t", CardBody::CreateTable),
                        CardBody::AppendTable(Box::new([lit("elem"), Card::read_var("t")])).into(),
                        Card::return_card(Card::read_var("t")),
                    ]),
                ),
            ]);
            let p = compile(p, None).unwrap();
            let mut vm = vm_with_gc();
            match vm.run(&p) {
                Err(err) => {
                    failures.push(format!("NthRow(pad={pad}): run failed: {:?}", err.payload))
                }
                Ok(()) => {
                    let bad = global_int(&vm, &p, "bad");
                    if bad != 0 {
                        failures.push(format!(
                            "NthRow(pad={pad}): {bad} rows of a temporary table had a wrong value"
                        ));
                    }
                }
            }
        }
        assert!(failures.is_empty(), "{}", failures.join("\n"));
    });
}

/// C02/R/VmFunction::call1..4/*
/// fix: db79791
///
/// The wrappers of native functions popped the arguments before calling the host function. A host
/// function that allocates (here: an explicit collection followed by `init_string`) swept its own
/// argument.
///
/// Detection: the argument (a fresh string literal) is swept, "zzzzz" reuses its cell, the host
/// function reads "zzzzz" instead of "hello".
#[test]
fn c02_r_vm_function_call_arguments_rooted() {
    isolated("c02_r_vm_function_call_arguments_rooted", || {
        struct State {
            seen: Vec<String>,
        }
        fn show(v: Value) -> String {
            match unsafe { v.as_str() } {
                Some(s) => s.to_string(),
                None => format!("<{}>", v.type_name()),
            }
        }
        fn f1(vm: &mut Vm<State>, a: Value) -> Result<Value, ExecutionErrorPayload> {
            vm.runtime_data.gc();
            let _other = vm.init_string("zzzzz")?;
            vm.auxiliary_data.seen.push(show(a));
            Ok(Value::Nil)
        }
        fn f2(vm: &mut Vm<State>, a: Value, b: Value) -> Result<Value, ExecutionErrorPayload> {
            vm.runtime_data.gc();
            let _o1 = vm.init_string("zzzzz")?;
            let _o2 = vm.init_string("yyyyy")?;
            vm.auxiliary_data.seen.push(show(a));
            vm.auxiliary_data.seen.push(show(b));
            Ok(Value::Nil)
        }
        let mut vm = Vm::new(State { seen: vec![] }).unwrap();
        vm.register_native_function("f1", into_f1(f1)).unwrap();
        vm.register_native_function("f2", into_f2(f2)).unwrap();
        let p = program(vec![(
            "main",
            func(vec![
                Card::set_global_var("r1", Card::call_native("f1", vec![lit("hello")])),
                Card::set_global_var(
                    "r2",
                    Card::call_native("f2", vec![lit("first"), lit("second")]),
                ),
            ]),
        )]);
        let p = compile(p, None).unwrap();
        vm.run(&p).expect("run");
        assert_eq!(
            vm.auxiliary_data.seen,
            vec!["hello", "first", "second"],
            "the arguments of a native function were collected while it ran"
        );
    });
}

// ------------------------------------------------------------------------------------------------
// C03  instruction budget
// ------------------------------------------------------------------------------------------------

fn run_callback<T>(vm: &mut Vm<T>, f: Value) -> Result<Value, ExecutionErrorPayload> {
    vm.run_function(f)
}

/// C03/B/_run/budget-is-per-vm
/// fix: 53d5c7b
///
/// Every native -> script callback (`Vm::run_function`) got a fresh budget of `max_instr`
/// instructions: a program could run ~37 000 instructions with `max_iter = 3000`.
#[test]
fn c03_b_run_budget_is_per_vm() {
    isolated("c03_b_run_budget_is_per_vm", || {
        let p = program(vec![
            (
                "main",
                func(vec![Card::repeat(
                    int(100),
                    None,
                    Card::set_var(
                        "r",
                        Card::call_native("apply", vec![Card::function_value("work")]),
                    ),
                )]),
            ),
            (
                "work",
                func(vec![Card::repeat(
                    int(30),
                    None,
                    Card::set_var("q", int(1)),
                )]),
            ),
        ]);
        let p = compile(p, None).unwrap();
        let mut vm = Vm::new(()).unwrap().with_max_iter(3000);
        vm.register_native_function("apply", into_f1(run_callback::<()>))
            .unwrap();
        match vm.run(&p) {
            Err(err) if is_timeout(&err.payload) => {}
            other => panic!(
                "expected Timeout: main (~1 300 instructions) + 100 callbacks of ~370 instructions with max_iter = 3000, got {:?}",
                other.map_err(|e| e.payload)
            ),
        }
    });
}

/// C03/Z (= C04/B) budget underflow at 0
/// fix: 53d5c7b
///
/// `remaining_iters -= 1` before the test for 0: `with_max_iter(0)` underflowed (panic in debug
/// builds, an unlimited budget in release builds)
#[test]
fn c03_z_budget_underflow_at_zero() {
    isolated("c03_z_budget_underflow_at_zero", || {
        let p = program(vec![(
            "main",
            func(vec![Card::repeat(int(10), None, Card::set_var("q", int(1)))]),
        )]);
        let p = compile(p, None).unwrap();
        let mut vm = Vm::new(()).unwrap().with_max_iter(0);
        match vm.run(&p) {
            Err(err) if is_timeout(&err.payload) => {}
            other => panic!(
                "expected Timeout with max_iter = 0, got {:?}",
                other.map_err(|e| e.payload)
            ),
        }
    });
}

// ------------------------------------------------------------------------------------------------
// C04  host robustness
// ------------------------------------------------------------------------------------------------

/// C04/A/Value::add|sub|mul
/// fix: 7a08b34
///
/// i64 overflow in script arithmetic panicked (debug builds): a script could take down the host
#[test]
fn c04_a_value_add_sub_mul_overflow() {
    isolated("c04_a_value_add_sub_mul_overflow", || {
        let p = program(vec![(
            "main",
            func(vec![
                Card::set_global_var("a", add(int(i64::MAX), int(1))),
                Card::set_global_var(
                    "s",
                    CardBody::Sub(Box::new([int(i64::MIN), int(1)])),
                ),
                Card::set_global_var(
                    "m",
                    CardBody::Mul(Box::new([int(i64::MAX), int(2)])),
                ),
            ]),
        )]);
        let p = compile(p, None).unwrap();
        let mut vm = Vm::new(()).unwrap();
        vm.run(&p).expect("run");
        assert_eq!(global_int(&vm, &p, "a"), i64::MAX.wrapping_add(1));
        assert_eq!(global_int(&vm, &p, "s"), i64::MIN.wrapping_sub(1));
        assert_eq!(global_int(&vm, &p, "m"), i64::MAX.wrapping_mul(2));
    });
}

// ------------------------------------------------------------------------------------------------
// C05  memory accounting
// ------------------------------------------------------------------------------------------------

/// C05/F/alloc/refund-on-failure
/// fix: e5a4d97
///
/// A refused allocation stayed charged to the memory counter: after one oversized request every
/// later allocation failed, although nothing had been allocated.
#[test]
fn c05_f_alloc_refund_on_failure() {
    isolated("c05_f_alloc_refund_on_failure", || {
        let mut vm = Vm::new(()).unwrap();
        vm.runtime_data.set_memory_limit(10_000);
        // a single allocation of 20 000 bytes: refused
        let res = vm.runtime_data.write_to_memory([0u8; 20_000]);
        assert!(res.is_err(), "20 000 bytes fit into a 10 000 byte VM?");
        // the VM is still empty
        let res = vm.init_string("a");
        assert!(
            res.is_ok(),
            "a 1 character string does not fit into an empty VM with a 10 000 byte limit after a refused allocation: {:?}",
            res.err()
        );
    });
}

/// C05/G/alloc/oom-after-gc (also C05/G/alloc/threshold-from-post-gc-usage)
/// fix: 18d4410
///
/// The allocator reported OutOfMemory without attempting a collection, and the next threshold was
/// twice the *pre*-collection usage: 100 KiB + 200 KiB + 400 KiB of pure garbage exhausted a
/// 400 KiB VM that never holds more than one live string.
#[test]
fn c05_g_alloc_oom_after_gc() {
    isolated("c05_g_alloc_oom_after_gc", || {
        // 64 characters: 260 bytes of payload + one cell per string, ~2 MiB of garbage in total
        let s = "x".repeat(64);
        let p = program(vec![(
            "main",
            func(vec![
                Card::set_global_var("n", int(0)),
                Card::repeat(
                    int(6000),
                    None,
                    Card::composite_card(
                        "body",
                        vec![
                            Card::set_var("tmp", lit(&s)),
                            Card::set_global_var("n", add(Card::read_var("n"), int(1))),
                        ],
                    ),
                ),
            ]),
        )]);
        let p = compile(p, None).unwrap();
        let mut vm = Vm::new(()).unwrap().with_max_iter(10_000_000);
        let res = vm.run(&p);
        let n = vm
            .read_var_by_name("n", &p.variables)
            .and_then(|v| v.as_int())
            .unwrap_or(-1);
        let per_string = cell_charge() + 4 * 64 + 4;
        assert!(
            res.is_ok(),
            "{:?} after {n} garbage strings (~{} KiB of garbage, 1 live string) in a 400 KiB VM",
            res.unwrap_err().payload,
            n as usize * per_string / 1024
        );
    });
}

/// C05/O/init_table (also C05/O/init_string)
/// fix: 0063c3f
///
/// init_table and init_string allocate the object cell first, then the payload. When the second
/// allocation was refused the cell was neither freed nor un-charged.
///
/// The VM is filled up to `limit - cell - 100` bytes, so that a cell fits but the bucket array of
/// a table (328 bytes) / the payload of a 100 character string (404 bytes) does not.
#[test]
fn c05_o_init_table_init_string_release_the_cell() {
    isolated("c05_o_init_table_init_string_release_the_cell", || {
        const LIMIT: usize = 10_000;
        const CELL: usize =
            std::mem::size_of::<CaoLangObject>() + std::mem::align_of::<CaoLangObject>();
        const HEADROOM: usize = CELL + 100;
        // [u8; N] is charged N + 1 bytes (size + align)
        const FILL: usize = LIMIT - HEADROOM - 1;
        const PROBE: usize = HEADROOM - 1;

        for what in ["init_table", "init_string"] {
            let mut vm = Vm::new(()).unwrap();
            vm.runtime_data.set_memory_limit(LIMIT);
            vm.runtime_data
                .write_to_memory([0u8; FILL])
                .expect("fill the vm");
            let long = "y".repeat(100);
            for i in 0..50 {
                let failed = match what {
                    "init_table" => vm.init_table().is_err(),
                    _ => vm.init_string(&long).is_err(),
                };
                assert!(failed, "{what} #{i} fit into {HEADROOM} bytes?");
            }
            // all 50 requests were refused: the headroom must still be there
            let res = vm.runtime_data.write_to_memory([0u8; PROBE]);
            assert!(
                res.is_ok(),
                "{what}: after 50 refused requests the {HEADROOM} bytes that were free before are gone"
            );
        }
    });
}

// ------------------------------------------------------------------------------------------------
// C17  VM reuse
// ------------------------------------------------------------------------------------------------

fn garbage_program(strings: i64) -> CaoCompiledProgram {
    let s = "x".repeat(64);
    let p = program(vec![(
        "main",
        func(vec![Card::repeat(
            int(strings),
            None,
            Card::set_var("tmp", lit(&s)),
        )]),
    )]);
    compile(p, None).unwrap()
}

/// C17/C/CaoLangAllocator.next_gc
/// fix: 2dbe1e5
///
/// The collection threshold survived `Vm::clear`: a program that succeeds on a new VM failed with
/// OutOfMemory on a VM that had been used and cleared.
///
/// The program creates ~500 KiB of garbage strings: a new VM collects at 100 KiB and 200 KiB and
/// finishes. The threshold is ~400 KiB afterwards; after `clear` the same program reaches the
/// 400 KiB limit before the threshold.
#[test]
fn c17_c_cao_lang_allocator_next_gc_survives_clear() {
    isolated("c17_c_cao_lang_allocator_next_gc_survives_clear", || {
        let per_string = cell_charge() + 4 * 64 + 4;
        let n = (500 * 1024 / per_string) as i64;
        let p = garbage_program(n);

        let mut fresh = Vm::new(()).unwrap().with_max_iter(10_000_000);
        fresh.run(&p).expect("the program runs on a new VM");

        let mut vm = Vm::new(()).unwrap().with_max_iter(10_000_000);
        vm.run(&p).expect("first run");
        vm.clear();
        let res = vm.run(&p);
        assert!(
            res.is_ok(),
            "run, clear, run: the second run failed with {:?}, a new VM runs the same program",
            res.unwrap_err().payload
        );
    });
}

/// C17/F/run/entry-frame-balanced
/// fix: 8da9935
///
/// `Vm::run` pushed an entry call frame and never popped it: the 257th run of any program on the
/// same VM failed with CallStackOverflow
#[test]
fn c17_f_run_entry_frame_balanced() {
    isolated("c17_f_run_entry_frame_balanced", || {
        let p = program(vec![("main", func(vec![Card::set_global_var("g", int(1))]))]);
        let p = compile(p, None).unwrap();
        let mut vm = Vm::new(()).unwrap();
        for i in 1..=300 {
            let res = vm.run(&p);
            assert!(
                res.is_ok(),
                "run #{i} of a trivial program failed: {:?}",
                res.unwrap_err().payload
            );
        }
    });
}

// ------------------------------------------------------------------------------------------------
// C12  CaoHashMap
// ------------------------------------------------------------------------------------------------

/// u32 key whose FNV-1a hash (the hash of CaoHashMap) is 0: bytes cc 24 31 c4
const ZERO_HASH_U32: u32 = u32::from_le_bytes([0xcc, 0x24, 0x31, 0xc4]);
/// i64 key whose FNV-1a hash is 0 (little endian bytes)
const ZERO_HASH_I64: i64 = 331358672506585093;

/// C12/Z/hash/zero-mapped-away
/// fix: 9d14796
///
/// A key that hashes to 0 was stored with hash 0, which marks an empty slot (debug builds: the
/// debug assertion in `hash` panics). Reachable from scripts: `t[331358672506585093] = 1`.
#[test]
fn c12_z_hash_zero_mapped_away() {
    isolated("c12_z_hash_zero_mapped_away", || {
        let mut m: CaoHashMap<u32, u32> = CaoHashMap::default();
        m.insert(1, 10).unwrap();
        m.insert(ZERO_HASH_U32, 42).unwrap();
        m.insert(2, 20).unwrap();
        assert_eq!(m.get(&ZERO_HASH_U32), Some(&42), "the key that hashes to 0 is lost");
        assert_eq!(m.len(), 3);
        assert_eq!(m.iter().count(), 3);

        // the same from a script
        let p = program(vec![(
            "main",
            func(vec![
                Card::set_global_var("t", CardBody::CreateTable),
                Card::set_property(int(1), Card::read_var("t"), int(ZERO_HASH_I64)),
                Card::set_global_var(
                    "g",
                    Card::get_property(Card::read_var("t"), int(ZERO_HASH_I64)),
                ),
            ]),
        )]);
        let p = compile(p, None).unwrap();
        let mut vm = Vm::new(()).unwrap();
        vm.run(&p).expect("run");
        assert_eq!(global_int(&vm, &p, "g"), 1);
    });
}

/// C12/I/entry
/// fix: 44832b4
///
/// `CaoHashMap::entry` grew the table and then used the slot index it had computed before growing
/// in the reallocated (and rehashed) arrays: entries were stored in the wrong bucket and lost.
#[test]
fn c12_i_entry() {
    isolated("c12_i_entry", || {
        let mut m: CaoHashMap<u32, u32> = CaoHashMap::default();
        for i in 1..=200u32 {
            let v = m.entry(i).unwrap().or_insert_with(|| i * 10);
            assert_eq!(*v, i * 10);
            assert_eq!(
                m.get(&i),
                Some(&(i * 10)),
                "key {i} is not found right after entry({i}).or_insert_with(..), capacity = {}",
                m.capacity()
            );
        }
        let lost: Vec<u32> = (1..=200u32).filter(|i| m.get(i) != Some(&(i * 10))).collect();
        assert!(
            lost.is_empty(),
            "{} of 200 keys inserted through entry() are not found, e.g. {:?}",
            lost.len(),
            &lost[..lost.len().min(8)]
        );
        assert_eq!(m.len(), 200);
    });
}

/// C12/R/remove_with_hint/vacate-decrements-count
/// fix: 113c9b7
///
/// `remove` did not decrement the count: `len()` / `is_empty()` are wrong after the first remove
/// (and the table grows although it is empty)
#[test]
fn c12_r_remove_with_hint_vacate_decrements_count() {
    isolated("c12_r_remove_with_hint_vacate_decrements_count", || {
        let mut m: CaoHashMap<u32, u32> = CaoHashMap::default();
        m.insert(7, 70).unwrap();
        assert_eq!(m.remove(&7), Some(70));
        assert_eq!(m.len(), 0, "len() after inserting and removing one key");
        assert!(m.is_empty());
        // insert / remove of a single key must not grow the table
        let cap = m.capacity();
        for i in 0..100u32 {
            m.insert(i + 1, i).unwrap();
            assert_eq!(m.remove(&(i + 1)), Some(i));
        }
        assert_eq!(m.len(), 0);
        assert!(
            m.capacity() <= cap.max(3),
            "capacity grew from {cap} to {} with at most 1 live key",
            m.capacity()
        );
    });
}

/// C12/H/remove_with_hint/home-slot-differs and C12/B/remove_with_hint/backshift
/// fix: 113c9b7
///
/// After vacating a slot `remove` moved the following entries back when `hash % capacity != slot`,
/// but `find_ind` starts probing at `(hash * 2654435769) % capacity`; and the slot an entry was moved
/// from was never emptied. Entries became unreachable / duplicated.
///
/// Differential test against std::collections::HashMap: 4000 random insert / remove operations on
/// 64 keys, every key is looked up after every operation (len() is not checked here, see above).
#[test]
fn c12_h_b_remove_with_hint_probe_chain() {
    isolated("c12_h_b_remove_with_hint_probe_chain", || {
        let mut failures = vec![];
        let mut state = 0x2545F4914F6CDD1Du64;
        let mut rnd = move || {
            state ^= state << 13;
            state ^= state >> 7;
            state ^= state << 17;
            state
        };
        let mut m: CaoHashMap<u32, u32> = CaoHashMap::default();
        let mut model = std::collections::HashMap::new();
        'outer: for step in 0..4000 {
            let key = (rnd() % 64) as u32 + 1;
            if rnd() % 3 == 0 {
                let a = m.remove(&key);
                let b = model.remove(&key);
                if a != b {
                    failures.push(format!("step {step}: remove({key}) = {a:?}, expected {b:?}"));
                }
            } else {
                let v = (rnd() % 1000) as u32;
                m.insert(key, v).unwrap();
                model.insert(key, v);
            }
            for k in 1..=64u32 {
                if m.get(&k) != model.get(&k) {
                    failures.push(format!(
                        "step {step}: get({k}) = {:?}, expected {:?}",
                        m.get(&k),
                        model.get(&k)
                    ));
                }
            }
            if m.iter().count() != model.len() {
                failures.push(format!(
                    "step {step}: iter() yields {} entries, expected {}",
                    m.iter().count(),
                    model.len()
                ));
            }
            if failures.len() > 5 {
                break 'outer;
            }
        }
        assert!(failures.is_empty(), "{}", failures.join("\n"));
    });
}

// ------------------------------------------------------------------------------------------------
// C13  HandleTable
// ------------------------------------------------------------------------------------------------

/// C13/P/with_capacity/capacity-is-power-of-two (also C13/P/pad_pot/no-underflow)
/// fix: 2e9359e
///
/// `find_ind` masks with `capacity - 1`; `with_capacity(3)` kept 3 as the capacity.
/// `pad_pot(0)` / `pad_pot(1)` underflowed (reachable through `reserve` on a table that was created
/// with capacity 0).
#[test]
fn c13_p_with_capacity_is_power_of_two() {
    isolated("c13_p_with_capacity_is_power_of_two", || {
        for cap in [3usize, 5, 6, 7, 12, 100] {
            let mut t: HandleTable<u32> = HandleTable::with_capacity(cap, Default::default()).unwrap();
            assert!(
                t.capacity().is_power_of_two() && t.capacity() >= 2,
                "with_capacity({cap}) => capacity {}",
                t.capacity()
            );
            for i in 1..=2u32 {
                t.insert(Handle::from_u32(i), i).unwrap();
            }
            for i in 1..=2u32 {
                assert_eq!(t.get(Handle::from_u32(i)), Some(&i));
            }
        }
    });
}

/// C13/P/pad_pot/no-underflow
/// fix: 2e9359e
#[test]
fn c13_p_pad_pot_no_underflow() {
    isolated("c13_p_pad_pot_no_underflow", || {
        for cap in [0usize, 1] {
            let mut t: HandleTable<u32> = HandleTable::with_capacity(cap, Default::default()).unwrap();
            // new_cap = 1 > capacity => adjust_capacity(1.69 as usize = 1) => pad_pot(1)
            t.reserve(1).unwrap();
            t.insert(Handle::from_u32(1), 1).unwrap();
            assert_eq!(t.get(Handle::from_u32(1)), Some(&1));
            assert!(t.capacity().is_power_of_two() && t.capacity() >= 2);
        }
    });
}

/// C13/G/entry/vacant-entry-guarded
/// fix: 2fcdc94 (and 282c23a)
///
/// `HandleTable::entry` never grew the table: the 17th `entry().or_insert_with` on a default table
/// (16 slots) probes a full table for an empty slot and never returns.
#[test]
fn c13_g_entry_vacant_entry_guarded() {
    isolated("c13_g_entry_vacant_entry_guarded", || {
        let mut t: HandleTable<u32> = HandleTable::default();
        for i in 1..=17u32 {
            let v = t.entry(Handle::from_u32(i)).or_insert_with(|| i);
            assert_eq!(*v, i);
        }
        assert_eq!(t.len(), 17);
        for i in 1..=17u32 {
            assert_eq!(t.get(Handle::from_u32(i)), Some(&i));
        }
        // occupied entries do not grow the table
        let cap = t.capacity();
        for i in 1..=17u32 {
            t.entry(Handle::from_u32(i)).or_insert_with(|| 0);
        }
        assert_eq!(t.capacity(), cap);
    });
}

/// C13/G/entry/vacant-entry-guarded, as seen by users: the compiler hangs on the 17th global
/// fix: 2fcdc94
#[test]
fn c13_g_compiler_hangs_on_17_globals() {
    isolated("c13_g_compiler_hangs_on_17_globals", || {
        let cards = (0..17)
            .map(|i| Card::set_global_var(format!("global_{i}"), int(i)))
            .collect();
        let p = program(vec![("main", func(cards))]);
        let p = compile(p, None).unwrap();
        let mut vm = Vm::new(()).unwrap();
        vm.run(&p).unwrap();
        for i in 0..17 {
            assert_eq!(global_int(&vm, &p, &format!("global_{i}")), i);
        }
    });
}

/// C13/Z/entry/zero-handle-rejected
/// fix: 2fcdc94
///
/// `entry(Handle(0))` "found" the first empty slot and handed it out as an *occupied* entry: a
/// reference to an uninitialised value. `insert` rejects the reserved handle, `entry` has to reject
/// it as well (it panics, `Entry` has no error channel).
#[test]
fn c13_z_entry_zero_handle_rejected() {
    isolated("c13_z_entry_zero_handle_rejected", || {
        let res = std::panic::catch_unwind(|| {
            let mut t: HandleTable<u32> = HandleTable::default();
            let mut called = false;
            let v = *t.entry(Handle::default()).or_insert_with(|| {
                called = true;
                7
            });
            (called, v, t.len())
        });
        match res {
            Err(_) => {} // rejected
            Ok((called, v, len)) => panic!(
                "entry(0 handle) was accepted: or_insert_with called its closure: {called}, value read: {v}, len: {len}"
            ),
        }
    });
}

/// C13/Z/Handle::from_bytes/never-zero
/// fix: 3458676
///
/// `Handle::from_bytes` (FNV-1a) can produce 0, the reserved handle (a debug assertion in debug
/// builds)
#[test]
fn c13_z_handle_from_bytes_never_zero() {
    isolated("c13_z_handle_from_bytes_never_zero", || {
        for bytes in [[0xccu8, 0x24, 0x31, 0xc4], [0xe0, 0x4d, 0x9f, 0xcb]] {
            let h = Handle::from_bytes(&bytes);
            assert_ne!(h, Handle::default(), "from_bytes({bytes:x?}) is the reserved handle");
            assert_ne!(h.value(), 0);
            let h = Handle::from_bytes_iter([&bytes[..2], &bytes[2..]].into_iter());
            assert_ne!(h.value(), 0, "from_bytes_iter({bytes:x?})");
            let mut t: HandleTable<u32> = HandleTable::default();
            t.insert(h, 1).expect("the handle of a key is insertable");
        }
    });
}

/// C13/R/remove/probe-chain-repaired
/// fix: 5f75ff7
///
/// `remove` only zeroed the slot: handles that had probed past it were not found any more
#[test]
fn c13_r_remove_probe_chain_repaired() {
    isolated("c13_r_remove_probe_chain_repaired", || {
        let mut failures = vec![];
        // 10 handles in 16 slots: collisions are certain. Remove each one in turn and look up the rest
        for victim in 1..=10u32 {
            let mut t: HandleTable<u32> = HandleTable::default();
            for i in 1..=10u32 {
                t.insert(Handle::from_u32(i), i).unwrap();
            }
            assert_eq!(t.remove(Handle::from_u32(victim)), Some(victim));
            for i in (1..=10u32).filter(|i| *i != victim) {
                if t.get(Handle::from_u32(i)) != Some(&i) {
                    failures.push(format!(
                        "after remove(from_u32({victim})): get(from_u32({i})) = {:?}",
                        t.get(Handle::from_u32(i))
                    ));
                }
            }
            if t.len() != 9 {
                failures.push(format!("len = {} after removing 1 of 10", t.len()));
            }
        }
        assert!(failures.is_empty(), "{}", failures.join("\n"));
    });
}

// ------------------------------------------------------------------------------------------------
// C07  CaoLangTable
// ------------------------------------------------------------------------------------------------

/// C07/S/pop/keys.pop
/// fix: 0d63f92
///
/// `CaoLangTable::pop` popped the key from `keys` and then removed it with `remove`, which looks the
/// key up in `keys`: the entry stayed in the hash part. `append(1); pop(); t[0]` is still 1.
#[test]
fn c07_s_pop_keys_pop() {
    isolated("c07_s_pop_keys_pop", || {
        let mut vm = Vm::new(()).unwrap();
        let mut guard = vm.init_table().unwrap();
        let t = guard.as_table_mut().unwrap();
        t.append(Value::Integer(1)).unwrap();
        assert_eq!(t.pop().unwrap(), Value::Integer(1));
        assert_eq!(t.len(), 0);
        assert_eq!(
            t.get(&Value::Integer(0)).copied(),
            None,
            "t[0] after append(1); pop()"
        );
        // and the next append goes to row 0 again
        t.append(Value::Integer(2)).unwrap();
        assert_eq!(t.get(&Value::Integer(0)).copied(), Some(Value::Integer(2)));

        // the same from a script
        let p = program(vec![(
            "main",
            func(vec![
                Card::set_global_var("t", CardBody::CreateTable),
                CardBody::AppendTable(Box::new([int(1), Card::read_var("t")])).into(),
                Card::set_global_var(
                    "popped",
                    CardBody::PopTable(UnaryExpression::new(Card::read_var("t"))),
                ),
                Card::set_global_var("g", Card::get_property(Card::read_var("t"), int(0))),
            ]),
        )]);
        let p = compile(p, None).unwrap();
        let mut vm = Vm::new(()).unwrap();
        vm.run(&p).unwrap();
        let g = vm.read_var_by_name("g", &p.variables).unwrap();
        assert!(g.is_null(), "script: t[0] after append(1); pop() is {g:?}");
    });
}

// ------------------------------------------------------------------------------------------------
// C06  closures
// ------------------------------------------------------------------------------------------------

/// C06/O/register_upvalue/stack-index#0
/// fix: 4859bae
///
/// RegisterUpvalue used the local index as an absolute index into the value stack instead of an
/// index relative to the frame of the enclosing function: a closure created in a function whose
/// frame does not start at 0 captured a slot of another frame.
#[test]
fn c06_o_register_upvalue_stack_index() {
    isolated("c06_o_register_upvalue_stack_index", || {
        let p = program(vec![
            (
                "main",
                func(vec![
                    Card::set_var("m0", lit("MAIN-0")),
                    Card::set_var("m1", lit("MAIN-1")),
                    Card::set_var("m2", lit("MAIN-2")),
                    Card::set_var("f", Card::call_function("make", vec![lit("ARG")])),
                    Card::dynamic_call(Card::read_var("f"), vec![]),
                ]),
            ),
            (
                "make",
                Function::default().with_arg("arg").with_cards(vec![
                    Card::set_var("x", lit("CAPTURED")),
                    Card::return_card(closure(
                        &[],
                        vec![Card::set_global_var("g", Card::read_var("x"))],
                    )),
                ]),
            ),
        ]);
        let p = compile(p, None).unwrap();
        let mut vm = Vm::new(()).unwrap();
        vm.run(&p).expect("run");
        assert_eq!(
            global_str(&vm, &p, "g"),
            "CAPTURED",
            "the closure captured a slot of the caller's frame"
        );
    });
}

/// C06/L/process_card[Closure]/label-key-is-program-unique
/// fix: abe2d47
///
/// The label of a closure was derived from its card index, and the function part of a card index
/// is relative to the module: closures at the same position of same-numbered functions of two
/// modules shared one label, calling the first one ran the body of the second one.
#[test]
fn c06_l_closure_label_is_program_unique() {
    isolated("c06_l_closure_label_is_program_unique", || {
        let sub = Module {
            imports: Default::default(),
            submodules: Default::default(),
            functions: vec![
                ("zero".to_string(), func(vec![CardBody::ScalarNil.into()])),
                (
                    // function #1 of its module, like make_a
                    "make_b".to_string(),
                    func(vec![Card::return_card(closure(
                        &[],
                        vec![Card::set_global_var("g", lit("closure of sub.make_b"))],
                    ))]),
                ),
            ],
        };
        let p = CaoProgram {
            imports: Default::default(),
            submodules: vec![("sub".to_string(), sub)],
            functions: vec![
                (
                    "main".to_string(),
                    func(vec![Card::dynamic_call(
                        Card::call_function("make_a", vec![]),
                        vec![],
                    )]),
                ),
                (
                    "make_a".to_string(),
                    func(vec![Card::return_card(closure(
                        &[],
                        vec![Card::set_global_var("g", lit("closure of make_a"))],
                    ))]),
                ),
            ],
        };
        let p = compile(p, None).unwrap();
        let mut vm = Vm::new(()).unwrap();
        vm.run(&p).expect("run");
        assert_eq!(
            global_str(&vm, &p, "g"),
            "closure of make_a",
            "main called the closure returned by make_a()"
        );
    });
}

// ------------------------------------------------------------------------------------------------
// C08  names
// ------------------------------------------------------------------------------------------------

/// C08/D/add_function/duplicate-test-uses-inserted-key
/// fix: 80c7877
///
/// The duplicate test looked up the short name, the function was registered under its full name:
/// a duplicate function in a sub-module was accepted (the second one silently replaced the first),
/// and a root function named like a function of any sub-module (e.g. `map`, because of `std.map`)
/// was rejected.
#[test]
fn c08_d_add_function_duplicate_test_uses_inserted_key() {
    isolated("c08_d_add_function_duplicate_test_uses_inserted_key", || {
        let mut failures = vec![];
        // root function named `map`
        let p = program(vec![
            ("main", func(vec![Card::call_function("map", vec![])])),
            ("map", func(vec![Card::set_global_var("g", int(1))])),
        ]);
        if let Err(err) = compile(p, None) {
            failures.push(format!("a root function named `map` is rejected: {}", err.payload));
        }
        // duplicate function in a sub-module
        let sub = Module {
            imports: Default::default(),
            submodules: Default::default(),
            functions: vec![
                ("foo".to_string(), func(vec![Card::set_global_var("g", int(1))])),
                ("foo".to_string(), func(vec![Card::set_global_var("g", int(2))])),
            ],
        };
        let p = CaoProgram {
            imports: Default::default(),
            submodules: vec![("sub".to_string(), sub)],
            functions: vec![(
                "main".to_string(),
                func(vec![Card::call_function("sub.foo", vec![])]),
            )],
        };
        match compile(p, None) {
            Err(err) if matches!(err.payload, CompilationErrorPayload::DuplicateName(_)) => {}
            Err(err) => failures.push(format!("sub.foo x 2: unexpected error {}", err.payload)),
            Ok(_) => failures.push("two functions named sub.foo are accepted".to_string()),
        }
        assert!(failures.is_empty(), "{}", failures.join("\n"));
    });
}

/// C08/V/flatten_module/submodules-name-validated
/// fix: d5f06b5
///
/// Sub-module names become components of dotted paths but were not validated: `a.b`, `super` and
/// the empty name were accepted.
#[test]
fn c08_v_flatten_module_submodule_names_validated() {
    isolated("c08_v_flatten_module_submodule_names_validated", || {
        let mut failures = vec![];
        for name in ["a.b", "super", "", "with space"] {
            let sub = Module {
                imports: Default::default(),
                submodules: Default::default(),
                functions: vec![("foo".to_string(), func(vec![CardBody::ScalarNil.into()]))],
            };
            let p = CaoProgram {
                imports: Default::default(),
                submodules: vec![(name.to_string(), sub)],
                functions: vec![("main".to_string(), func(vec![CardBody::ScalarNil.into()]))],
            };
            if compile(p, None).is_ok() {
                failures.push(format!("a module named {name:?} is accepted"));
            }
        }
        assert!(failures.is_empty(), "{}", failures.join("\n"));
    });
}

// ------------------------------------------------------------------------------------------------
// KNOWN FINDINGS (not fixed at HEAD): expected to FAIL on both revisions
// ------------------------------------------------------------------------------------------------

/// key function (key, value) for min/max/sorted: returns a *new* string whose length is the value
/// of the row ("a", "bb", "ccc"), after forcing a collection (= an allocation that crosses the GC
/// threshold inside the callback)
fn allocating_key_fn(with_gc: bool) -> Function {
    Function::default()
        .with_arg("k")
        .with_arg("v")
        .with_cards(vec![
            if with_gc {
                gc_card()
            } else {
                Card::set_global_var("_gc", CardBody::ScalarNil)
            },
            CardBody::IfTrue(Box::new([
                equals(Card::read_var("v"), int(1)),
                Card::return_card(lit("a")),
            ]))
            .into(),
            CardBody::IfTrue(Box::new([
                equals(Card::read_var("v"), int(2)),
                Card::return_card(lit("bb")),
            ]))
            .into(),
            Card::return_card(lit("ccc")),
        ])
}

fn minmax_program(std_fn: &str, rows: &[i64], with_gc: bool) -> CaoCompiledProgram {
    let p = program(vec![
        (
            "main",
            func(vec![
                Card::set_global_var(
                    "t",
                    CardBody::Array(rows.iter().map(|i| int(*i)).collect()),
                ),
                Card::set_global_var(
                    "res",
                    Card::call_function(
                        std_fn,
                        vec![Card::function_value("keyfn"), Card::read_var("t")],
                    ),
                ),
            ]),
        ),
        ("keyfn", allocating_key_fn(with_gc)),
    ]);
    compile(p, None).unwrap()
}

fn res_value(vm: &Vm<()>, p: &CaoCompiledProgram) -> i64 {
    let res = vm.read_var_by_name("res", &p.variables).expect("res");
    let t = unsafe { res.as_table() }.expect("res is a {key, value} row");
    t.iter()
        .find(|(k, _)| unsafe { k.as_str() } == Some("value"))
        .and_then(|(_, v)| v.as_int())
        .expect("res.value")
}

/// C02/R/native_minmax/run_function  (KNOWN FINDING, not fixed)
///
/// `stdlib::native_minmax` keeps the best key so far (`max_key`, returned by `Vm::run_function`) in
/// a Rust local across the next callback. With a key function that returns a new string and a
/// collection in the second callback, `key < max_key` reads a swept object.
///
/// Detection: rows [3, 1], keys "ccc" and "a" (strings are ordered by length). The second callback
/// sweeps "ccc" and allocates "a" in its cell: `max_key` now *is* "a", `"a" < "a"` is false and
/// min_by_key answers 3 instead of 1.
#[test]
fn known_c02_r_native_minmax_run_function() {
    isolated("known_c02_r_native_minmax_run_function", || {
        // control: the same program without a collection in the key function
        let p = minmax_program("std.min_by_key", &[3, 1], false);
        let mut vm = vm_with_gc();
        vm.run(&p).expect("run");
        assert_eq!(res_value(&vm, &p), 1, "CONTROL (no collection) is wrong: test bug");

        let p = minmax_program("std.min_by_key", &[3, 1], true);
        let mut vm = vm_with_gc();
        vm.run(&p).expect("run");
        assert_eq!(
            res_value(&vm, &p),
            1,
            "std.min_by_key([3, 1]) with the keys \"ccc\" and \"a\""
        );
    });
}

/// C09/G/native_minmax/run_function  (KNOWN FINDING, same defect as C02/R/native_minmax)
///
/// the `max` instantiation of the same function: rows [1, 3], keys "a" and "ccc": the second
/// callback sweeps "a", allocates "ccc" in its cell, `"ccc" > "ccc"` is false, max_by_key answers 1
#[test]
fn known_c09_g_native_minmax_run_function() {
    isolated("known_c09_g_native_minmax_run_function", || {
        let p = minmax_program("std.max_by_key", &[1, 3], false);
        let mut vm = vm_with_gc();
        vm.run(&p).expect("run");
        assert_eq!(res_value(&vm, &p), 3, "CONTROL (no collection) is wrong: test bug");

        let p = minmax_program("std.max_by_key", &[1, 3], true);
        let mut vm = vm_with_gc();
        vm.run(&p).expect("run");
        assert_eq!(
            res_value(&vm, &p),
            3,
            "std.max_by_key([1, 3]) with the keys \"a\" and \"ccc\""
        );
    });
}

fn sorted_values(vm: &Vm<()>, p: &CaoCompiledProgram) -> Vec<i64> {
    let res = vm.read_var_by_name("res", &p.variables).expect("res");
    let t = unsafe { res.as_table() }.expect("res is a table");
    t.iter().map(|(_, v)| v.as_int().unwrap_or(-1)).collect()
}

/// C02/R/native_sorted/run_function  (KNOWN FINDING, not fixed)
///
/// `stdlib::native_sorted` collects the keys returned by the callbacks in a Vec that no GC root
/// reaches; the later callbacks sweep the earlier keys.
///
/// Detection: rows [3, 1, 2] with the keys "ccc", "a", "bb". Every callback sweeps the key of the
/// previous one and allocates its own in the same cell: in the end all three keys are the same
/// object, the sort is a no-op and the rows come back as [3, 1, 2].
#[test]
fn known_c02_r_native_sorted_run_function() {
    isolated("known_c02_r_native_sorted_run_function", || {
        let p = minmax_program("std.sorted_by_key", &[3, 1, 2], false);
        let mut vm = vm_with_gc();
        vm.run(&p).expect("run");
        assert_eq!(
            sorted_values(&vm, &p),
            vec![1, 2, 3],
            "CONTROL (no collection) is wrong: test bug"
        );

        let p = minmax_program("std.sorted_by_key", &[3, 1, 2], true);
        let mut vm = vm_with_gc();
        vm.run(&p).expect("run");
        assert_eq!(
            sorted_values(&vm, &p),
            vec![1, 2, 3],
            "std.sorted_by_key([3, 1, 2]) with the keys \"ccc\", \"a\", \"bb\""
        );
    });
}

/// C09/G/native_sorted/run_function  (KNOWN FINDING, same defect as C02/R/native_sorted)
///
/// the same with 6 rows
#[test]
fn known_c09_g_native_sorted_run_function() {
    isolated("known_c09_g_native_sorted_run_function", || {
        let p = minmax_program("std.sorted_by_key", &[3, 2, 1, 3, 1, 2], false);
        let mut vm = vm_with_gc();
        vm.run(&p).expect("run");
        assert_eq!(
            sorted_values(&vm, &p),
            vec![1, 1, 2, 2, 3, 3],
            "CONTROL (no collection) is wrong: test bug"
        );

        let p = minmax_program("std.sorted_by_key", &[3, 2, 1, 3, 1, 2], true);
        let mut vm = vm_with_gc();
        vm.run(&p).expect("run");
        assert_eq!(sorted_values(&vm, &p), vec![1, 1, 2, 2, 3, 3]);
    });
}

fn self_referencing_table_program(extra: Vec<Card>) -> CaoCompiledProgram {
    let mut cards = vec![
        Card::set_global_var("t", CardBody::CreateTable),
        // t.x = t
        Card::set_property(Card::read_var("t"), Card::read_var("t"), lit("x")),
    ];
    cards.extend(extra);
    compile(program(vec![("main", func(cards))]), None).unwrap()
}

/// C04/R/PartialEq for Value  (KNOWN FINDING, not fixed)
///
/// `t == t` on a table that contains itself recurses without a bound: the native stack overflows and
/// the process is aborted (SIGABRT / SIGSEGV in the child process)
#[test]
fn known_c04_r_partial_eq_for_value() {
    isolated("known_c04_r_partial_eq_for_value", || {
        let p = self_referencing_table_program(vec![Card::set_global_var(
            "g",
            equals(Card::read_var("t"), Card::read_var("t")),
        )]);
        let mut vm = Vm::new(()).unwrap();
        let _ = vm.run(&p);
    });
}

/// C04/R/Hash for Value  (KNOWN FINDING, not fixed)
///
/// using a self-referencing table as a table key hashes it: unbounded recursion, stack overflow
#[test]
fn known_c04_r_hash_for_value() {
    isolated("known_c04_r_hash_for_value", || {
        let p = self_referencing_table_program(vec![
            Card::set_global_var("u", CardBody::CreateTable),
            // u[t] = 1
            Card::set_property(int(1), Card::read_var("u"), Card::read_var("t")),
        ]);
        let mut vm = Vm::new(()).unwrap();
        let _ = vm.run(&p);
    });
}

/// C04/R/TryFrom for OwnedValue  (KNOWN FINDING, not fixed)
///
/// saving a self-referencing table with `OwnedValue::try_from`: unbounded recursion, stack overflow
#[test]
fn known_c04_r_try_from_for_owned_value() {
    isolated("known_c04_r_try_from_for_owned_value", || {
        let p = self_referencing_table_program(vec![]);
        let mut vm = Vm::new(()).unwrap();
        vm.run(&p).expect("run");
        let t = vm.read_var_by_name("t", &p.variables).unwrap();
        let _ = OwnedValue::try_from(t);
    });
}

fn owned_eq(a: &OwnedValue, b: &OwnedValue) -> bool {
    match (a, b) {
        (OwnedValue::Nil, OwnedValue::Nil) => true,
        (OwnedValue::String(a), OwnedValue::String(b)) => a == b,
        (OwnedValue::Integer(a), OwnedValue::Integer(b)) => a == b,
        (OwnedValue::Real(a), OwnedValue::Real(b)) => a == b,
        (OwnedValue::Table(a), OwnedValue::Table(b)) => {
            a.len() == b.len()
                && a.iter()
                    .zip(b.iter())
                    .all(|(a, b)| owned_eq(&a.key, &b.key) && owned_eq(&a.value, &b.value))
        }
        _ => false,
    }
}

/// C02/R/insert_value/insert_value  (KNOWN FINDING, not fixed)
///
/// `Vm::insert_value(OwnedValue::Table)` holds the freshly inserted key in a local, with its guard
/// already dropped, while it inserts the value and grows the table. A collection there sweeps the
/// key.
///
/// There is no hook for a deterministic collection here, the threshold (100 KiB on a new VM) has to
/// be crossed by the right allocation. 500 entries {"key-NNN": "value-NNN"} are ~128 KiB; a pad
/// string of 0..=80 characters, allocated first and kept alive, shifts the phase in 4 byte steps
/// over more than one entry (256 bytes). Observed at HEAD (x86_64 linux, glibc), entry 317:
///   pad  0..=20  the threshold is crossed by the payload of the value: {"key-318": "value-318"}
///   pad 22..=30  SIGSEGV (the swept key is hashed)
///   pad 32..=54  crossed by the cell of the value, which reuses the cell of its key:
///                {"value-317": "value-317"}
///   pad 56..=80  crossed by the allocations of the key: no error
/// The sweep starts in the middle of the crash-free windows and stops at the first wrong table.
#[test]
fn known_c02_r_insert_value_insert_value() {
    isolated("known_c02_r_insert_value_insert_value", || {
        let input = OwnedValue::Table(
            (0..500)
                .map(|i| OwnedEntry {
                    key: OwnedValue::String(format!("key-{i:03}")),
                    value: OwnedValue::String(format!("value-{i:03}")),
                })
                .collect(),
        );
        let mut failures = vec![];
        let pads = [40usize, 44, 36, 8, 12].into_iter().chain(0..=80);
        for pad in pads {
            if !failures.is_empty() {
                break;
            }
            let mut vm = Vm::new(()).unwrap();
            let _pad = vm.init_string(&"p".repeat(pad)).unwrap();
            let inserted = match vm.insert_value(&input) {
                Ok(v) => v,
                Err(err) => {
                    failures.push(format!("pad {pad}: insert_value failed: {err:?}"));
                    continue;
                }
            };
            let output = OwnedValue::try_from(inserted).expect("the table is convertible");
            if !owned_eq(&input, &output) {
                let detail = match &output {
                    OwnedValue::Table(entries) => entries
                        .iter()
                        .enumerate()
                        .find(|(i, e)| {
                            !matches!(&e.key, OwnedValue::String(k) if *k == format!("key-{i:03}"))
                                || !matches!(&e.value, OwnedValue::String(v) if *v == format!("value-{i:03}"))
                        })
                        .map(|(i, e)| format!("entry {i} is {{{:?}: {:?}}}", e.key, e.value))
                        .unwrap_or_else(|| format!("{} entries", entries.len())),
                    other => format!("{other:?}"),
                };
                failures.push(format!("pad {pad}: the table read back differs: {detail}"));
            }
        }
        assert!(failures.is_empty(), "{}", failures.join("\n"));
    });
}
