//! C18: after a host function called a script function through run_function, the caller's value stack and call stack
//! are as before the call - also when the callee failed and the host function chose to carry on.
use cao_lang::compiler::{Card, CardBody, Function, UnaryExpression};
use cao_lang::prelude::*;

#[test]
fn a_failed_callback_leaves_no_frames_behind() {
    // try_call(f): runs f, a failure is reported as -1
    let try_call = move |vm: &mut Vm<()>, f: Value| match vm.run_function(f) {
        Ok(v) => Ok(v),
        Err(_) => Ok(Value::Integer(-1)),
    };
    let mut vm = Vm::new(()).unwrap();
    vm.register_native_function("try_call", into_f1(try_call))
        .unwrap();

    let cu = CaoProgram {
        imports: Default::default(),
        submodules: Default::default(),
        functions: [
            (
                "main".into(),
                Function::default()
                    .with_card(Card::set_global_var(
                        "g_work",
                        Card::call_function("work", vec![]),
                    ))
                    .with_card(Card::set_global_var("g_done", CardBody::ScalarInt(1))),
            ),
            (
                "work".into(),
                Function::default()
                    .with_card(Card::set_var(
                        "r",
                        Card::dynamic_call(
                            CardBody::NativeFunction("try_call".to_string()),
                            vec![CardBody::Function("boom".to_string()).into()],
                        ),
                    ))
                    .with_card(CardBody::Return(UnaryExpression {
                        card: Box::new(Card::read_var("r")),
                    })),
            ),
            (
                // fails at run time: calls a host function that does not exist
                "boom".into(),
                Function::default()
                    .with_card(Card::set_var("local", CardBody::ScalarInt(7)))
                    .with_card(Card::call_native("no_such_host_function", vec![])),
            ),
        ]
        .into(),
    };
    let program = compile(cu, None).expect("compile");
    vm.run(&program).expect("run");

    let work = vm
        .read_var_by_name("g_work", &program.variables)
        .expect("main stopped before `g_work = work()` finished");
    assert_eq!(work, Value::Integer(-1));
    let done = vm
        .read_var_by_name("g_done", &program.variables)
        .expect("main stopped early");
    assert_eq!(done, Value::Integer(1));
}
