use cao_lang::prelude::*;
use cao_lang::compiler::{Card, CaoProgram, Function, CardBody};

fn run(main: Function) -> (Result<(), String>, Vm<'static, ()>, CaoCompiledProgram) {
    let cu = CaoProgram { imports: Default::default(), submodules: Default::default(), functions: [("main".into(), main)].into() };
    let program = compile(cu, None).expect("compile");
    let mut vm = Vm::new(()).unwrap().with_max_iter(10_000);
    let r = vm.run(&program).map_err(|e| format!("{:?}", e.payload));
    (r, vm, program)
}

/// a local first assigned in a loop body that never runs must not break the locals declared after the loop
#[test]
fn local_in_skipped_while_body() {
    let main = Function::default()
        .with_card(CardBody::While(Box::new([Card::scalar_int(0), Card::set_var("x", Card::scalar_int(1))])))
        .with_card(Card::set_var("y", Card::scalar_int(2)))
        .with_card(Card::set_global_var("g", Card::read_var("y")));
    let (r, vm, p) = run(main);
    assert_eq!(r, Ok(()));
    assert_eq!(vm.read_var_by_name("g", &p.variables), Some(Value::Integer(2)));
}

/// same for an if body that is not taken
#[test]
fn local_in_skipped_if_body() {
    let main = Function::default()
        .with_card(CardBody::IfTrue(Box::new([Card::scalar_int(0), Card::set_var("x", Card::scalar_int(1))])))
        .with_card(Card::set_var("y", Card::scalar_int(2)))
        .with_card(Card::set_global_var("g", Card::read_var("y")));
    let (r, vm, p) = run(main);
    assert_eq!(r, Ok(()));
    assert_eq!(vm.read_var_by_name("g", &p.variables), Some(Value::Integer(2)));
}
