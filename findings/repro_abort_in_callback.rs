//! C18: an Abort card inside a script function that a host function called back through run_function used to end only the
//! nested interpreter loop: run_function took that for a return, left the callee's frame on the call stack and handed back
//! whatever was on top of the value stack; the calling script carried on with its locals resolved against the wrong frame.
//! Abort ends the program, wherever it is executed.
use cao_lang::compiler::{Card, CardBody, Function};
use cao_lang::prelude::*;

fn program(callee_aborts: bool) -> CaoProgram {
    let mut stopper = Function::default().with_card(Card::set_global_var("g_in_callee", CardBody::ScalarInt(1)));
    if callee_aborts {
        stopper = stopper.with_card(CardBody::Abort);
    }
    CaoProgram {
        imports: Default::default(),
        submodules: Default::default(),
        functions: [
            (
                "main".into(),
                Function::default()
                    .with_card(Card::set_var("x", CardBody::ScalarInt(7)))
                    .with_card(Card::set_var(
                        "r",
                        Card::dynamic_call(
                            CardBody::NativeFunction("apply".to_string()),
                            vec![CardBody::Function("stopper".to_string()).into()],
                        ),
                    ))
                    .with_card(Card::set_global_var("g_x", Card::read_var("x")))
                    .with_card(Card::set_global_var("g_after", CardBody::ScalarInt(1))),
            ),
            ("stopper".into(), stopper),
        ]
        .into(),
    }
}

fn apply_strict(vm: &mut Vm<()>, f: Value) -> Result<Value, ExecutionErrorPayload> {
    vm.run_function(f)
}

fn apply_lenient(vm: &mut Vm<()>, f: Value) -> Result<Value, ExecutionErrorPayload> {
    match vm.run_function(f) {
        Ok(v) => Ok(v),
        Err(_) => Ok(Value::Integer(-1)),
    }
}

fn run(callee_aborts: bool, swallow: bool) -> (Result<(), String>, Option<Value>, Option<Value>, Option<Value>) {
    let apply = if swallow { apply_lenient } else { apply_strict };
    let mut vm = Vm::new(()).unwrap();
    vm.register_native_function("apply", into_f1(apply)).unwrap();
    let p = compile(program(callee_aborts), None).expect("compile");
    let r = vm.run(&p).map_err(|e| format!("{:?}", e.payload));
    let g = |n: &str| vm.read_var_by_name(n, &p.variables);
    (r, g("g_in_callee"), g("g_x"), g("g_after"))
}

#[test]
fn control_callee_returns() {
    let (r, inc, x, after) = run(false, false);
    assert_eq!(r, Ok(()));
    assert_eq!(inc, Some(Value::Integer(1)));
    assert_eq!(x, Some(Value::Integer(7)));
    assert_eq!(after, Some(Value::Integer(1)));
}

#[test]
fn abort_in_a_callback_ends_the_program() {
    let (r, inc, x, after) = run(true, false);
    assert_eq!(r, Ok(()), "Abort is not an error");
    assert_eq!(inc, Some(Value::Integer(1)));
    // nothing after the call ran
    assert_eq!(x, None, "main carried on after the callee aborted");
    assert_eq!(after, None, "main carried on after the callee aborted");
}

#[test]
fn a_host_function_that_carries_on_after_an_abort_finds_the_stacks_as_before() {
    let (r, _inc, x, after) = run(true, true);
    assert_eq!(r, Ok(()));
    // the host function turned the abort into -1 and returned: main continues, with its own locals
    assert_eq!(x, Some(Value::Integer(7)), "main's local was resolved against the callee's frame");
    assert_eq!(after, Some(Value::Integer(1)));
}
