//! C09 / C04: sorted does not panic on keys of mixed kinds. `partial_cmp` leaves nil-against-object pairs (and different
//! objects of equal length) open; treating every open pair as Equal is not transitive ("ccc" > 2 > nil, nil "==" "ccc"),
//! and the standard sort panics when it notices.
use cao_lang::compiler::{Card, CardBody, Function, Module};
use cao_lang::prelude::*;
use std::panic::{catch_unwind, AssertUnwindSafe};

#[test]
fn sorting_values_of_mixed_kinds_does_not_panic() {
    let mut items: Vec<Card> = Vec::new();
    let mut x = 99u64;
    for _ in 0..120 {
        x = x.wrapping_mul(6364136223846793005).wrapping_add(1442695040888963407);
        items.push(match (x >> 33) % 4 {
            0 => CardBody::ScalarNil.into(),
            1 => Card::scalar_int(((x >> 40) % 7) as i64),
            2 => Card::string_card("c".repeat(1 + ((x >> 45) % 6) as usize)),
            _ => CardBody::ScalarFloat(((x >> 41) % 5) as f64 + 0.5).into(),
        });
    }
    let m = Module {
        imports: vec!["std.sorted".to_string()],
        functions: vec![(
            "main".to_string(),
            Function::default().with_cards(vec![
                Card::set_var("t", CardBody::Array(items)),
                Card::set_global_var("g", Card::call_function("sorted", vec![Card::read_var("t")])),
            ]),
        )],
        ..Default::default()
    };
    let p = compile(m, None).expect("compile");
    let r = catch_unwind(AssertUnwindSafe(|| {
        let mut vm = Vm::new(()).unwrap().with_max_iter(1_000_000);
        vm.run(&p).map_err(|e| e.to_string())?;
        let g = vm.read_var_by_name("g", &p.variables).ok_or("g unset")?;
        let t = unsafe { g.as_table().ok_or("not a table")? };
        // every adjacent pair that the language can compare is in order (checked while the VM that owns the values lives)
        let vals: Vec<Value> = t.iter().map(|(_, v)| *v).collect();
        for w in vals.windows(2) {
            if w[0] > w[1] {
                return Err(format!("{:?} sorted before {:?}", w[0], w[1]));
            }
        }
        Ok::<_, String>(vals.len())
    }));
    let len = r.expect("the VM panicked").expect("run");
    assert_eq!(len, 120);
}
