use std::panic::{catch_unwind, AssertUnwindSafe};
use cao_lang::{compiler::Card, prelude::*};

fn bin(a: impl Into<Card>, b: impl Into<Card>) -> Box<[Card; 2]> { Box::new([a.into(), b.into()]) }

/// t = {}; t[0.0/0.0] = 1; t[2] = 5; g = min(t)
#[test]
fn min_over_table_with_nan_key_does_not_panic() {
    let nan = CardBody::Div(bin(CardBody::ScalarFloat(0.0), CardBody::ScalarFloat(0.0)));
    let main = Function::default()
        .with_card(Card::set_var("t", CardBody::CreateTable))
        .with_card(Card::set_property(CardBody::ScalarInt(1), Card::read_var("t"), nan))
        .with_card(Card::set_property(CardBody::ScalarInt(5), Card::read_var("t"), CardBody::ScalarInt(2)))
        .with_card(Card::set_global_var("g", Card::call_function("min", vec![Card::read_var("t")])));
    let cu = CaoProgram {
        imports: ["std.min".to_string()].into(),
        submodules: Default::default(),
        functions: [("main".into(), main)].into(),
    };
    let program = compile(cu, None).expect("compile");
    let mut vm = Vm::new(()).unwrap().with_max_iter(10_000);
    let res = catch_unwind(AssertUnwindSafe(|| { let r = vm.run(&program); println!("{:?}", r); }));
    if res.is_err() { std::mem::forget(vm); }
    assert!(res.is_ok(), "run panicked");
}
