use cao_lang::prelude::*;
use cao_lang::compiler::{CardBody, Function, Card, CaoProgram};

fn get_int(vm: &Vm<()>, p: &CaoCompiledProgram, name: &str) -> Option<i64> {
    vm.read_var_by_name(name, &p.variables).and_then(|v| match v { Value::Integer(i) => Some(i), _ => None })
}

/// a closure created inside a loop whose counter shadows a parameter reads the counter (the innermost binding)
#[test]
fn closure_captures_innermost_binding() {
    let cu = CaoProgram {
        imports: Default::default(),
        submodules: Default::default(),
        functions: [
            (
                "f".into(),
                Function::default().with_arg("i")
                    .with_card(Card::repeat(Card::scalar_int(1), Some("i".to_string()), Card::composite_card("body", vec![
                        Card::set_global_var("g_direct", Card::read_var("i")),
                        Card::set_global_var("g_c", CardBody::Closure(Box::new(
                            Function::default().with_card(Card::set_global_var("g_res", Card::read_var("i")))))),
                        Card::dynamic_call(Card::read_var("g_c"), vec![]),
                    ]))),
            ),
            (
                "main".into(),
                Function::default()
                    .with_card(Card::call_function("f", vec![Card::scalar_int(100)])),
            ),
        ].into(),
    };
    let program = compile(cu, None).expect("compile");
    let mut vm = Vm::new(()).unwrap();
    vm.run(&program).expect("run");
    assert_eq!(get_int(&vm, &program, "g_direct"), Some(0));
    assert_eq!(get_int(&vm, &program, "g_res"), Some(0));
}
