use cao_lang::prelude::*;
use std::ptr::NonNull;

/// A host function creates a table, keeps the guard, hands the table to the VM (value stack), a collection runs, the
/// value leaves the stack again, a second collection runs: the guard is still alive, the table must be too.
#[test]
fn guarded_object_on_the_stack_keeps_its_protection() {
    let mut vm = Vm::new(()).unwrap();

    let mut keep = vm.init_table().unwrap();
    keep.as_table_mut().unwrap().insert(1, 42).unwrap();
    let ptr = NonNull::from(&*keep);

    vm.stack_push(Value::Object(ptr)).unwrap();
    vm.runtime_data.gc();
    let _ = vm.stack_pop();
    vm.runtime_data.gc();

    let _filler_a = vm.init_string("filler").unwrap();
    let _filler_b = vm.init_string("filler").unwrap();

    let table = keep.as_table().expect("the guarded object is not a table anymore");
    assert_eq!(table.len(), 1);
    assert_eq!(table.get(&Value::Integer(1)).copied(), Some(Value::Integer(42)));
}
