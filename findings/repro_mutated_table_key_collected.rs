use cao_lang::prelude::*;

/// a table that is used as a key and mutated afterwards stays alive as long as the table holding it does
#[test]
fn mutated_table_key_is_not_collected() {
    let mut vm = Vm::new(()).unwrap();
    let mut outer = vm.init_table().unwrap();
    {
        let mut key = vm.init_table().unwrap();
        let payload = vm.init_string("payload").unwrap();
        let kv = Value::Object(std::ptr::NonNull::from(&*key));
        outer.as_table_mut().unwrap().insert(kv, Value::Object(std::ptr::NonNull::from(&*payload))).unwrap();
        // mutate the key table after it was used as a key: its content hash changes
        key.as_table_mut().unwrap().insert(1, 2).unwrap();
    } // guards of key and payload end here: they are reachable through `outer` only
    vm.runtime_data.gc();
    // new objects reuse whatever was released
    let _a = vm.init_string("aaaaaaa").unwrap();
    let _b = vm.init_string("bbbbbbb").unwrap();
    let _c = vm.init_string("ccccccc").unwrap();
    let t = outer.as_table().unwrap();
    assert_eq!(t.len(), 1);
    let k = t.nth_key(0);
    let Value::Object(o) = k else { panic!("key is not an object: {k:?}") };
    let key_table = unsafe { o.as_ref().as_table() }.expect("the key handed out by the table is not a table any more");
    assert_eq!(key_table.get(&Value::Integer(1)).copied(), Some(Value::Integer(2)));
}
