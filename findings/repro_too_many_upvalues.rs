//! C04: compiling is total. A closure that captures more variables than the upvalue table holds is a compile error
//! (TooManyUpvalues), not a panic.
use cao_lang::compiler::{Card, CardBody, Function};
use cao_lang::prelude::*;
use std::panic::{catch_unwind, AssertUnwindSafe};

#[test]
fn capturing_256_variables_is_a_compile_error() {
    // main { a = 1; outer = closure { b0..b254 = 0; inner = closure { reads a, b0..b254 } } }
    let mut inner = Function::default().with_card(Card::set_global_var("g", Card::read_var("a")));
    for i in 0..255 {
        inner = inner.with_card(Card::set_global_var("g", Card::read_var(format!("b{i}"))));
    }
    let mut outer = Function::default();
    for i in 0..255 {
        outer = outer.with_card(Card::set_var(format!("b{i}"), CardBody::ScalarInt(0)));
    }
    outer = outer.with_card(Card::set_global_var(
        "g_inner",
        CardBody::Closure(Box::new(inner)),
    ));
    let cu = CaoProgram {
        imports: Default::default(),
        submodules: Default::default(),
        functions: [(
            "main".into(),
            Function::default()
                .with_card(Card::set_var("a", CardBody::ScalarInt(1)))
                .with_card(Card::set_global_var(
                    "g_outer",
                    CardBody::Closure(Box::new(outer)),
                )),
        )]
        .into(),
    };
    let res = catch_unwind(AssertUnwindSafe(|| compile(cu, None)));
    let res = res.expect("the compiler panicked");
    assert!(
        res.is_err(),
        "256 captured variables do not fit into 255 upvalue slots"
    );
}
