//! C15 (known finding): an error raised inside a script function that a native calls back into is located at the
//! native's call card, not at the failing card.
use cao_lang::compiler::{Card, CardBody, Function, Module};
use cao_lang::prelude::*;

#[test]
fn error_inside_a_key_function_is_located_at_the_failing_card() {
    let m = Module {
        imports: vec!["std.sorted_by_key".to_string()],
        functions: vec![
            (
                "main".to_string(),
                Function::default().with_cards(vec![
                    Card::set_var(
                        "t",
                        CardBody::Array(vec![Card::scalar_int(2), Card::scalar_int(1)]),
                    ),
                    Card::call_function(
                        "sorted_by_key",
                        vec![Card::function_value("bad_key"), Card::read_var("t")],
                    ),
                ]),
            ),
            (
                "bad_key".to_string(),
                Function::default()
                    .with_arg("k")
                    .with_arg("v")
                    .with_cards(vec![
                        Card::set_var("x", Card::scalar_int(1)),
                        // card [1] of bad_key: fails at run time
                        Card::call_native("no_such_native", vec![]),
                    ]),
            ),
        ],
        ..Default::default()
    };
    let p = compile(m.clone(), None).expect("compile");
    let mut vm = Vm::new(()).unwrap();
    let err = vm.run(&p).expect_err("must fail");
    let first = err.trace.first().expect("trace");
    eprintln!("payload: {:?}\ntrace: {:?}", err.payload, err.trace);
    // the failing card is function 1 (bad_key), card 1
    assert_eq!(first.index.function, 1, "trace[0] = {first:?}");
}
