use cao_lang::prelude::*;
use cao_lang::compiler::{CardBody, Function, Card, CaoProgram};

fn get_int(vm: &Vm<()>, p: &CaoCompiledProgram, name: &str) -> Option<i64> {
    vm.read_var_by_name(name, &p.variables).and_then(|v| match v { Value::Integer(i) => Some(i), _ => None })
}

/// a loop whose body declares a local that a closure captures: each iteration's scope end must release the slot
#[test]
fn captured_loop_local_does_not_leak_stack_slots() {
    let cu = CaoProgram {
        imports: Default::default(),
        submodules: Default::default(),
        functions: [(
            "main".into(),
            Function::default()
                .with_card(Card::set_global_var("g_n", Card::scalar_int(0)))
                .with_card(Card::repeat(Card::scalar_int(1000), None, Card::composite_card("body", vec![
                    Card::set_var("x", Card::scalar_int(7)),
                    Card::set_global_var("g_c", CardBody::Closure(Box::new(
                        Function::default().with_card(Card::set_global_var("g_seen", Card::read_var("x")))))),
                    Card::set_global_var("g_n", CardBody::Add(Box::new([Card::read_var("g_n"), Card::scalar_int(1)]))),
                ]))),
        )].into(),
    };
    let program = compile(cu, None).expect("compile");
    let mut vm = Vm::new(()).unwrap().with_max_iter(1_000_000);
    let res = vm.run(&program);
    assert!(res.is_ok(), "run failed: {:?} after {:?} iterations", res, get_int(&vm, &program, "g_n"));
    assert_eq!(get_int(&vm, &program, "g_n"), Some(1000));
}

/// two captured locals in the same block scope: both closures keep working after the scope ended
#[test]
fn two_captured_locals_in_one_block_are_both_closed() {
    let cu = CaoProgram {
        imports: Default::default(),
        submodules: Default::default(),
        functions: [(
            "main".into(),
            Function::default()
                .with_card(Card::repeat(Card::scalar_int(1), None, Card::composite_card("body", vec![
                    Card::set_var("a", Card::scalar_int(11)),
                    Card::set_var("b", Card::scalar_int(22)),
                    Card::set_global_var("g_ra", CardBody::Closure(Box::new(
                        Function::default().with_card(Card::set_global_var("g_a", Card::read_var("a")))))),
                    Card::set_global_var("g_rb", CardBody::Closure(Box::new(
                        Function::default().with_card(Card::set_global_var("g_b", Card::read_var("b")))))),
                ])))
                // clobber the stack region the loop body used
                .with_card(Card::set_var("p", Card::scalar_int(100)))
                .with_card(Card::set_var("q", Card::scalar_int(200)))
                .with_card(Card::set_var("r", Card::scalar_int(300)))
                .with_card(Card::set_var("s", Card::scalar_int(400)))
                .with_card(Card::dynamic_call(Card::read_var("g_ra"), vec![]))
                .with_card(Card::dynamic_call(Card::read_var("g_rb"), vec![])),
        )].into(),
    };
    let program = compile(cu, None).expect("compile");
    let mut vm = Vm::new(()).unwrap();
    vm.run(&program).expect("run");
    assert_eq!(get_int(&vm, &program, "g_b"), Some(22));
    assert_eq!(get_int(&vm, &program, "g_a"), Some(11));
}
