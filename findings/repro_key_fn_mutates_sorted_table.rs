use cao_lang::prelude::*;
use cao_lang::compiler::{Card, CardBody, Function, Module};

/// a key function that appends to the table being sorted must not corrupt memory: sorted_by_key works on the rows the
/// table had when it was called
#[test]
fn key_function_that_mutates_the_sorted_table() {
    let program = Module {
        imports: vec!["std.sorted_by_key".to_string()],
        functions: vec![
            ("main".to_string(), Function::default().with_cards(vec![
                Card::set_global_var("g_t", CardBody::Array(vec![
                    CardBody::ScalarInt(2).into(), CardBody::ScalarInt(3).into(), CardBody::ScalarInt(1).into(),
                ])),
                Card::set_global_var("g_result", Card::call_function("sorted_by_key", vec![
                    CardBody::Function("keyfn".to_string()).into(), Card::read_var("g_t"),
                ])),
            ])),
            ("keyfn".to_string(), Function::default().with_arg("_key").with_arg("val")
                // grow the table that is being iterated: 40 appends per call reallocate its key list and hash part
                .with_card(Card::repeat(Card::scalar_int(40), None, CardBody::AppendTable(Box::new([Card::scalar_int(7), Card::read_var("g_t")]))))
                .with_card(Card::return_card(Card::read_var("val")))),
        ],
        ..Default::default()
    };
    let compiled = compile(program, None).expect("compile");
    let mut vm = Vm::new(()).unwrap().with_max_iter(100_000);
    let res = vm.run(&compiled);
    println!("{:?}", res.as_ref().map_err(|e| &e.payload));
    let result = vm.read_var_by_name("g_result", &compiled.variables);
    if let Some(Value::Object(o)) = result {
        let t = unsafe { o.as_ref().as_table() }.expect("table");
        let values: Vec<Value> = t.iter().map(|(_, v)| *v).collect();
        println!("{values:?}");
        // whatever rows are taken into account, the result is sorted and consists of integers the table held
        for w in values.windows(2) { assert!(w[0] <= w[1], "{values:?}"); }
        assert!(values.iter().all(|v| matches!(v, Value::Integer(1 | 2 | 3 | 7))), "{values:?}");
    }
}
