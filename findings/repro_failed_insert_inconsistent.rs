use cao_lang::{value::Value, vm::runtime::RuntimeData};

/// an insert that fails (the hash part cannot grow) leaves the table consistent: what `get` finds, `len`/iteration see
#[test]
fn failed_insert_leaves_table_consistent() {
    let mut rt = RuntimeData::new(4 * 1024, 16, 16).expect("runtime");
    let mut guard = rt.init_table().expect("init table");
    let table = guard.as_table_mut().expect("table");
    let mut failed_at = None;
    for i in 0..100_000i64 {
        if table.insert(Value::Integer(i), Value::Integer(i * 2)).is_err() {
            failed_at = Some(i);
            break;
        }
    }
    let k = failed_at.expect("the memory limit should have been hit");
    let found = table.get(&Value::Integer(k)).copied();
    let listed = table.iter().any(|(key, _)| *key == Value::Integer(k));
    assert_eq!(
        found.is_some(), listed,
        "key {k} of the failed insert: get() = {found:?} but iteration lists it = {listed} (len {})", table.len()
    );
    assert_eq!(table.iter().count(), table.len());
}
