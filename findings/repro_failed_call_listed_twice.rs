use cao_lang::prelude::*;
use cao_lang::compiler::{Card, CaoProgram, Function};

/// a call whose target has no label fails at the call card: the card is trace[0], it is not ALSO a frame of the call chain
#[test]
fn failed_call_is_not_part_of_its_own_call_chain() {
    let cu = CaoProgram { imports: Default::default(), submodules: Default::default(),
        functions: [
            ("main".into(), Function::default().with_card(Card::call_function("helper", vec![]))),
            // the entry function has no label: calling it fails with ProcedureNotFound at run time
            ("helper".into(), Function::default().with_card(Card::call_function("main", vec![]))),
        ].into() };
    let program = compile(cu, None).expect("compile");
    let mut vm = Vm::new(()).unwrap();
    let err = vm.run(&program).expect_err("calling the entry function is not supported");
    assert!(matches!(err.payload, ExecutionErrorPayload::ProcedureNotFound(_)), "{:?}", err.payload);
    let idx: Vec<String> = err.trace.iter().map(|t| t.index.to_string()).collect();
    // trace[0] = the failing call card in helper (1.0), then the call card in main (0.0), optionally the entry
    assert_eq!(idx[0], "1.0", "{idx:?}");
    assert_eq!(idx[1], "0.0", "the failing call card must not be listed again as an active frame: {idx:?}");
}
