//! Minimal JSON value + writer (no dependencies available offline for a rustc_private driver).
use std::fmt::Write;

#[derive(Clone, Debug)]
pub enum J {
    Null,
    Bool(bool),
    Int(i128),
    Str(String),
    Arr(Vec<J>),
    Obj(Vec<(&'static str, J)>),
}

pub fn s(x: impl Into<String>) -> J {
    J::Str(x.into())
}
pub fn i(x: impl TryInto<i128>) -> J {
    match x.try_into() {
        Ok(v) => J::Int(v),
        Err(_) => J::Null,
    }
}
pub fn b(x: bool) -> J {
    J::Bool(x)
}
pub fn arr(x: Vec<J>) -> J {
    J::Arr(x)
}
pub fn obj(x: Vec<(&'static str, J)>) -> J {
    J::Obj(x)
}
pub fn opt(x: Option<J>) -> J {
    x.unwrap_or(J::Null)
}

fn esc(out: &mut String, st: &str) {
    out.push('"');
    for c in st.chars() {
        match c {
            '"' => out.push_str("\\\""),
            '\\' => out.push_str("\\\\"),
            '\n' => out.push_str("\\n"),
            '\r' => out.push_str("\\r"),
            '\t' => out.push_str("\\t"),
            c if (c as u32) < 0x20 => {
                let _ = write!(out, "\\u{:04x}", c as u32);
            }
            c => out.push(c),
        }
    }
    out.push('"');
}

impl J {
    pub fn write(&self, out: &mut String) {
        match self {
            J::Null => out.push_str("null"),
            J::Bool(v) => out.push_str(if *v { "true" } else { "false" }),
            J::Int(v) => {
                let _ = write!(out, "{}", v);
            }
            J::Str(v) => esc(out, v),
            J::Arr(v) => {
                out.push('[');
                for (k, x) in v.iter().enumerate() {
                    if k > 0 {
                        out.push(',');
                    }
                    x.write(out);
                }
                out.push(']');
            }
            J::Obj(v) => {
                out.push('{');
                for (k, (name, x)) in v.iter().enumerate() {
                    if k > 0 {
                        out.push(',');
                    }
                    esc(out, name);
                    out.push(':');
                    x.write(out);
                }
                out.push('}');
            }
        }
    }
}
