//! HIR expression trees + typeck results → JSON. Source order is preserved.
use crate::json::*;
use crate::mirdump::generic_args;
use crate::Ctx;
use rustc_hir as hir;
use rustc_hir::def::Res;
use rustc_hir::def_id::LocalDefId;
use rustc_hir::{ExprKind, PatKind, QPath, StmtKind};
use rustc_middle::ty::{self, TyCtxt, TypeckResults, TypingEnv};

struct H<'a, 'tcx> {
    cx: &'a Ctx<'tcx>,
    tcx: TyCtxt<'tcx>,
    tr: &'tcx TypeckResults<'tcx>,
    env: TypingEnv<'tcx>,
}

fn hid(h: hir::HirId) -> J {
    s(format!("{}.{}", h.owner.def_id.local_def_index.as_u32(), h.local_id.as_u32()))
}

impl<'a, 'tcx> H<'a, 'tcx> {
    fn res(&self, r: Res) -> J {
        match r {
            Res::Local(h) => obj(vec![("k", s("local")), ("id", hid(h)), ("name", s(self.tcx.hir_name(h).to_string()))]),
            Res::Def(dk, did) => {
                let mut o = vec![("k", s("def")), ("def_kind", s(format!("{:?}", dk))), ("path", s(self.cx.path(did)))];
                // for constructors, name the variant/struct
                if let hir::def::DefKind::Ctor(..) = dk {
                    let parent = self.tcx.parent(did);
                    o.push(("ctor_of", s(self.cx.path(parent))));
                }
                obj(o)
            }
            Res::SelfCtor(d) => obj(vec![("k", s("selfctor")), ("path", s(self.cx.path(d)))]),
            Res::SelfTyAlias { alias_to, .. } => obj(vec![("k", s("selfty")), ("path", s(self.cx.path(alias_to)))]),
            Res::PrimTy(p) => obj(vec![("k", s("prim")), ("name", s(p.name_str()))]),
            _ => obj(vec![("k", s("other")), ("text", s(format!("{:?}", r)))]),
        }
    }

    fn qpath(&self, qp: &QPath<'tcx>, id: hir::HirId) -> J {
        let r = self.tr.qpath_res(qp, id);
        let mut o = vec![("res", self.res(r))];
        let text = match qp {
            QPath::Resolved(_, p) => p.segments.iter().map(|s| s.ident.to_string()).collect::<Vec<_>>().join("::"),
            QPath::TypeRelative(_, seg) => format!("<_>::{}", seg.ident),
        };
        o.push(("text", s(text)));
        if let Some(args) = self.tr.node_args_opt(id) {
            o.push(("args", generic_args(self.cx, self.env, args)));
            if let Res::Def(hir::def::DefKind::Fn | hir::def::DefKind::AssocFn, did) = r {
                o.push(("callee", crate::mirdump::callee(self.cx, self.env, did, args)));
            }
        }
        obj(o)
    }

    fn pat(&self, p: &hir::Pat<'tcx>) -> J {
        let ty = self.tr.pat_ty(p).to_string();
        let mut o: Vec<(&'static str, J)> = vec![("ty", s(ty)), ("ln", self.cx.line(p.span))];
        match &p.kind {
            PatKind::Wild => o.push(("k", s("wild"))),
            PatKind::Missing => o.push(("k", s("missing"))),
            PatKind::Never => o.push(("k", s("never"))),
            PatKind::Binding(mode, h, ident, sub) => {
                o.push(("k", s("bind")));
                o.push(("id", hid(*h)));
                o.push(("name", s(ident.to_string())));
                o.push(("by_ref", b(!matches!(mode.0, hir::ByRef::No))));
                o.push(("mutbl", b(mode.1.is_mut())));
                if let Some(sp) = sub {
                    o.push(("sub", self.pat(sp)));
                }
            }
            PatKind::Struct(qp, fields, rest) => {
                o.push(("k", s("struct")));
                o.push(("path", self.qpath(qp, p.hir_id)));
                o.push((
                    "fields",
                    arr(fields.iter().map(|f| obj(vec![("name", s(f.ident.to_string())), ("pat", self.pat(f.pat))])).collect()),
                ));
                o.push(("rest", b(rest.is_some())));
            }
            PatKind::TupleStruct(qp, pats, _) => {
                o.push(("k", s("tuple_struct")));
                o.push(("path", self.qpath(qp, p.hir_id)));
                o.push(("pats", arr(pats.iter().map(|x| self.pat(x)).collect())));
            }
            PatKind::Or(pats) => {
                o.push(("k", s("or")));
                o.push(("pats", arr(pats.iter().map(|x| self.pat(x)).collect())));
            }
            PatKind::Tuple(pats, _) => {
                o.push(("k", s("tuple")));
                o.push(("pats", arr(pats.iter().map(|x| self.pat(x)).collect())));
            }
            PatKind::Box(x) => {
                o.push(("k", s("box")));
                o.push(("pat", self.pat(x)));
            }
            PatKind::Deref(x) => {
                o.push(("k", s("deref")));
                o.push(("pat", self.pat(x)));
            }
            PatKind::Ref(x, _, m) => {
                o.push(("k", s("ref")));
                o.push(("mutbl", b(m.is_mut())));
                o.push(("pat", self.pat(x)));
            }
            PatKind::Expr(pe) => {
                o.push(("k", s("expr")));
                match &pe.kind {
                    hir::PatExprKind::Lit { lit, negated } => {
                        o.push(("lit", self.lit(lit)));
                        o.push(("neg", b(*negated)));
                    }
                    hir::PatExprKind::Path(qp) => {
                        o.push(("path", self.qpath(qp, pe.hir_id)));
                    }
                }
            }
            PatKind::Guard(x, e) => {
                o.push(("k", s("guard")));
                o.push(("pat", self.pat(x)));
                o.push(("cond", self.expr(e)));
            }
            PatKind::Range(..) => o.push(("k", s("range"))),
            PatKind::Slice(a, m, c) => {
                o.push(("k", s("slice")));
                o.push(("before", arr(a.iter().map(|x| self.pat(x)).collect())));
                o.push(("mid", opt(m.map(|x| self.pat(x)))));
                o.push(("after", arr(c.iter().map(|x| self.pat(x)).collect())));
            }
            PatKind::Err(_) => o.push(("k", s("err"))),
        }
        obj(o)
    }

    fn lit(&self, l: &hir::Lit) -> J {
        use rustc_ast::LitKind;
        match &l.node {
            LitKind::Str(sym, _) => obj(vec![("k", s("str")), ("v", s(sym.to_string()))]),
            LitKind::Int(v, _) => obj(vec![("k", s("int")), ("v", J::Int(v.get() as i128))]),
            LitKind::Bool(v) => obj(vec![("k", s("bool")), ("v", b(*v))]),
            LitKind::Char(c) => obj(vec![("k", s("char")), ("v", s(c.to_string()))]),
            LitKind::Float(sym, _) => obj(vec![("k", s("float")), ("v", s(sym.to_string()))]),
            LitKind::Byte(v) => obj(vec![("k", s("int")), ("v", J::Int(*v as i128))]),
            _ => obj(vec![("k", s("other"))]),
        }
    }

    fn block(&self, bl: &hir::Block<'tcx>) -> J {
        let mut stmts = Vec::new();
        for st in bl.stmts {
            let ln = self.cx.line(st.span);
            match &st.kind {
                StmtKind::Let(l) => {
                    stmts.push(obj(vec![
                        ("k", s("let")),
                        ("pat", self.pat(l.pat)),
                        ("init", opt(l.init.map(|e| self.expr(e)))),
                        ("els", opt(l.els.map(|b| self.block(b)))),
                        ("ln", ln),
                    ]));
                }
                StmtKind::Item(_) => stmts.push(obj(vec![("k", s("item")), ("ln", ln)])),
                StmtKind::Expr(e) => stmts.push(obj(vec![("k", s("expr")), ("e", self.expr(e)), ("ln", ln)])),
                StmtKind::Semi(e) => stmts.push(obj(vec![("k", s("semi")), ("e", self.expr(e)), ("ln", ln)])),
            }
        }
        obj(vec![
            ("stmts", arr(stmts)),
            ("expr", opt(bl.expr.map(|e| self.expr(e)))),
            ("unsafe", b(!matches!(bl.rules, hir::BlockCheckMode::DefaultBlock))),
        ])
    }

    fn expr(&self, e: &hir::Expr<'tcx>) -> J {
        let ty = self.tr.expr_ty_opt(e).map(|t| t.to_string()).unwrap_or_default();
        let tya = self.tr.expr_ty_adjusted_opt(e).map(|t| t.to_string()).unwrap_or_default();
        let mut o: Vec<(&'static str, J)> = vec![
            ("ty", s(ty.clone())),
            ("ln", self.cx.line(e.span)),
            ("exp", b(e.span.from_expansion())),
        ];
        if tya != ty {
            o.push(("ty_adj", s(tya)));
        }
        match &e.kind {
            ExprKind::ConstBlock(_) => o.push(("k", s("const_block"))),
            ExprKind::Array(xs) => {
                o.push(("k", s("array")));
                o.push(("elems", arr(xs.iter().map(|x| self.expr(x)).collect())));
            }
            ExprKind::Call(f, args) => {
                o.push(("k", s("call")));
                o.push(("f", self.expr(f)));
                o.push(("args", arr(args.iter().map(|x| self.expr(x)).collect())));
            }
            ExprKind::MethodCall(seg, recv, args, _) => {
                o.push(("k", s("mcall")));
                o.push(("name", s(seg.ident.to_string())));
                if let Some(did) = self.tr.type_dependent_def_id(e.hir_id) {
                    let gargs = self.tr.node_args(e.hir_id);
                    o.push(("callee", crate::mirdump::callee(self.cx, self.env, did, gargs)));
                }
                o.push(("recv", self.expr(recv)));
                o.push(("args", arr(args.iter().map(|x| self.expr(x)).collect())));
            }
            ExprKind::Use(x, _) => {
                o.push(("k", s("use")));
                o.push(("e", self.expr(x)));
            }
            ExprKind::Tup(xs) => {
                o.push(("k", s("tup")));
                o.push(("elems", arr(xs.iter().map(|x| self.expr(x)).collect())));
            }
            ExprKind::Binary(op, l, r) => {
                o.push(("k", s("bin")));
                o.push(("op", s(format!("{:?}", op.node))));
                if let Some(did) = self.tr.type_dependent_def_id(e.hir_id) {
                    let gargs = self.tr.node_args(e.hir_id);
                    o.push(("callee", crate::mirdump::callee(self.cx, self.env, did, gargs)));
                }
                o.push(("l", self.expr(l)));
                o.push(("r", self.expr(r)));
            }
            ExprKind::Unary(op, x) => {
                o.push(("k", s("un")));
                o.push(("op", s(format!("{:?}", op))));
                if let Some(did) = self.tr.type_dependent_def_id(e.hir_id) {
                    let gargs = self.tr.node_args(e.hir_id);
                    o.push(("callee", crate::mirdump::callee(self.cx, self.env, did, gargs)));
                }
                o.push(("e", self.expr(x)));
            }
            ExprKind::Lit(l) => {
                o.push(("k", s("lit")));
                o.push(("lit", self.lit(l)));
            }
            ExprKind::Cast(x, _) => {
                o.push(("k", s("cast")));
                o.push(("e", self.expr(x)));
            }
            ExprKind::Type(x, _) => {
                o.push(("k", s("type")));
                o.push(("e", self.expr(x)));
            }
            ExprKind::DropTemps(x) => {
                o.push(("k", s("drop_temps")));
                o.push(("e", self.expr(x)));
            }
            ExprKind::Let(l) => {
                o.push(("k", s("let")));
                o.push(("pat", self.pat(l.pat)));
                o.push(("init", self.expr(l.init)));
            }
            ExprKind::If(c, t, el) => {
                o.push(("k", s("if")));
                o.push(("cond", self.expr(c)));
                o.push(("then", self.expr(t)));
                o.push(("else", opt(el.map(|x| self.expr(x)))));
            }
            ExprKind::Loop(bl, _, src, _) => {
                o.push(("k", s("loop")));
                o.push(("source", s(format!("{:?}", src))));
                o.push(("body", self.block(bl)));
            }
            ExprKind::Match(sc, arms, src) => {
                o.push(("k", s("match")));
                o.push(("source", s(format!("{:?}", src))));
                o.push(("scrut", self.expr(sc)));
                o.push((
                    "arms",
                    arr(arms
                        .iter()
                        .map(|a| {
                            obj(vec![
                                ("pat", self.pat(a.pat)),
                                ("guard", opt(a.guard.map(|g| self.expr(g)))),
                                ("body", self.expr(a.body)),
                                ("ln", self.cx.line(a.span)),
                            ])
                        })
                        .collect()),
                ));
            }
            ExprKind::Closure(c) => {
                o.push(("k", s("closure")));
                o.push(("path", s(self.cx.path(c.def_id.to_def_id()))));
                let body = self.tcx.hir_body(c.body);
                o.push(("params", arr(body.params.iter().map(|p| self.pat(p.pat)).collect())));
                o.push(("body", self.expr(body.value)));
            }
            ExprKind::Block(bl, _) => {
                o.push(("k", s("block")));
                o.push(("block", self.block(bl)));
            }
            ExprKind::Assign(l, r, _) => {
                o.push(("k", s("assign")));
                o.push(("l", self.expr(l)));
                o.push(("r", self.expr(r)));
            }
            ExprKind::AssignOp(op, l, r) => {
                o.push(("k", s("assign_op")));
                o.push(("op", s(format!("{:?}", op.node))));
                if let Some(did) = self.tr.type_dependent_def_id(e.hir_id) {
                    let gargs = self.tr.node_args(e.hir_id);
                    o.push(("callee", crate::mirdump::callee(self.cx, self.env, did, gargs)));
                }
                o.push(("l", self.expr(l)));
                o.push(("r", self.expr(r)));
            }
            ExprKind::Field(x, ident) => {
                o.push(("k", s("field")));
                o.push(("name", s(ident.to_string())));
                o.push(("e", self.expr(x)));
            }
            ExprKind::Index(x, idx, _) => {
                o.push(("k", s("index")));
                o.push(("e", self.expr(x)));
                o.push(("idx", self.expr(idx)));
            }
            ExprKind::Path(qp) => {
                o.push(("k", s("path")));
                o.push(("path", self.qpath(qp, e.hir_id)));
            }
            ExprKind::AddrOf(_, m, x) => {
                o.push(("k", s("addr_of")));
                o.push(("mutbl", b(m.is_mut())));
                o.push(("e", self.expr(x)));
            }
            ExprKind::Break(_, x) => {
                o.push(("k", s("break")));
                o.push(("e", opt(x.map(|x| self.expr(x)))));
            }
            ExprKind::Continue(_) => o.push(("k", s("continue"))),
            ExprKind::Ret(x) => {
                o.push(("k", s("ret")));
                o.push(("e", opt(x.map(|x| self.expr(x)))));
            }
            ExprKind::Struct(qp, fields, tail) => {
                o.push(("k", s("struct")));
                o.push(("path", self.qpath(qp, e.hir_id)));
                o.push((
                    "fields",
                    arr(fields.iter().map(|f| obj(vec![("name", s(f.ident.to_string())), ("e", self.expr(f.expr))])).collect()),
                ));
                let t = match tail {
                    hir::StructTailExpr::Base(x) => self.expr(x),
                    hir::StructTailExpr::DefaultFields(_) => s("default_fields"),
                    _ => J::Null,
                };
                o.push(("base", t));
            }
            ExprKind::Repeat(x, _) => {
                o.push(("k", s("repeat")));
                o.push(("e", self.expr(x)));
            }
            ExprKind::Become(x) => {
                o.push(("k", s("become")));
                o.push(("e", self.expr(x)));
            }
            ExprKind::Yield(x, _) => {
                o.push(("k", s("yield")));
                o.push(("e", self.expr(x)));
            }
            ExprKind::InlineAsm(_) => o.push(("k", s("asm"))),
            ExprKind::OffsetOf(..) => o.push(("k", s("offset_of"))),
            ExprKind::UnsafeBinderCast(_, x, _) => {
                o.push(("k", s("binder_cast")));
                o.push(("e", self.expr(x)));
            }
            ExprKind::Err(_) => o.push(("k", s("err"))),
        }
        obj(o)
    }
}

pub fn dump_body<'tcx>(cx: &Ctx<'tcx>, ldid: LocalDefId) -> J {
    let tcx = cx.tcx;
    // closures are dumped inline inside their parent; still give them an (empty) marker
    if tcx.is_closure_like(ldid.to_def_id()) {
        return J::Null;
    }
    let body = tcx.hir_body_owned_by(ldid);
    let tr = tcx.typeck(ldid);
    let env = TypingEnv::post_analysis(tcx, ldid.to_def_id());
    let h = H { cx, tcx, tr, env };
    obj(vec![("params", arr(body.params.iter().map(|p| h.pat(p.pat)).collect())), ("body", h.expr(body.value))])
}
