//! MIR → JSON. No interpretation; places keep field names, callees are resolved.
use crate::json::*;
use crate::Ctx;
use rustc_hir::def_id::{DefId, LocalDefId};
use rustc_middle::mir::*;
use rustc_middle::ty::{self, GenericArgsRef, Instance, Ty, TyCtxt, TypingEnv};

pub struct B<'a, 'tcx> {
    cx: &'a Ctx<'tcx>,
    tcx: TyCtxt<'tcx>,
    body: &'a Body<'tcx>,
    env: TypingEnv<'tcx>,
}

pub fn note_size<'tcx>(cx: &Ctx<'tcx>, env: TypingEnv<'tcx>, t: Ty<'tcx>) {
    use rustc_middle::ty::TypeVisitableExt;
    if t.has_param() || t.has_infer() || t.has_escaping_bound_vars() || t.has_aliases() {
        return;
    }
    let key = t.to_string();
    if cx.sizes.borrow().contains_key(&key) {
        return;
    }
    let t2 = cx.tcx.erase_and_anonymize_regions(t);
    if let Ok(l) = cx.tcx.layout_of(env.as_query_input(t2)) {
        cx.sizes.borrow_mut().insert(key, l.size.bytes());
    }
}

pub fn generic_args<'tcx>(cx: &Ctx<'tcx>, env: TypingEnv<'tcx>, args: GenericArgsRef<'tcx>) -> J {
    let mut v = Vec::new();
    for a in args.iter() {
        if let Some(t) = a.as_type() {
            note_size(cx, env, t);
            v.push(s(t.to_string()));
        } else if let Some(c) = a.as_const() {
            v.push(s(format!("{}", c)));
        }
    }
    arr(v)
}

/// Describe a callee: declared path + generic args, and the resolved instance if any.
pub fn callee<'tcx>(cx: &Ctx<'tcx>, env: TypingEnv<'tcx>, did: DefId, args: GenericArgsRef<'tcx>) -> J {
    use rustc_hir::def::DefKind;
    let tcx = cx.tcx;
    let mut o = vec![("path", s(cx.path(did))), ("args", generic_args(cx, env, args)), ("local", b(did.is_local()))];
    if let Some(tr) = tcx.trait_of_assoc(did) {
        o.push(("trait", s(cx.path(tr))));
    }
    if matches!(tcx.def_kind(did), DefKind::Fn | DefKind::AssocFn) {
        let args_e = tcx.erase_and_anonymize_regions(args);
        if let Ok(Some(inst)) = Instance::try_resolve(tcx, env, did, args_e) {
            let rd = inst.def_id();
            o.push(("resolved", s(cx.path(rd))));
            o.push(("resolved_args", generic_args(cx, env, inst.args)));
            o.push(("resolved_local", b(rd.is_local())));
            o.push(("resolved_kind", s(format!("{:?}", std::mem::discriminant(&inst.def)).to_string())));
            let k = match inst.def {
                ty::InstanceKind::Item(_) => "item",
                ty::InstanceKind::Virtual(..) => "virtual",
                ty::InstanceKind::ClosureOnceShim { .. } => "closure_once_shim",
                ty::InstanceKind::FnPtrShim(..) => "fn_ptr_shim",
                ty::InstanceKind::DropGlue(..) => "drop_glue",
                ty::InstanceKind::CloneShim(..) => "clone_shim",
                ty::InstanceKind::Intrinsic(..) => "intrinsic",
                ty::InstanceKind::ReifyShim(..) => "reify_shim",
                _ => "other",
            };
            o.pop();
            o.push(("resolved_kind", s(k)));
        }
    }
    obj(o)
}

impl<'a, 'tcx> B<'a, 'tcx> {
    fn ty(&self, t: Ty<'tcx>) -> J {
        s(t.to_string())
    }

    fn place(&self, p: &Place<'tcx>) -> J {
        let mut proj = Vec::new();
        let mut pty = PlaceTy::from_ty(self.body.local_decls[p.local].ty);
        for elem in p.projection.iter() {
            let e = match elem {
                ProjectionElem::Deref => obj(vec![("k", s("deref"))]),
                ProjectionElem::Field(f, fty) => {
                    let mut name = format!("{}", f.index());
                    let mut owner = String::new();
                    if let ty::Adt(adt, _) = pty.ty.kind() {
                        let vidx = pty.variant_index.unwrap_or(rustc_abi::FIRST_VARIANT);
                        if adt.is_enum() || adt.is_struct() || adt.is_union() {
                            if let Some(v) = adt.variants().get(vidx) {
                                if let Some(fd) = v.fields.get(f) {
                                    name = fd.name.to_string();
                                }
                                owner = if adt.is_enum() {
                                    format!("{}::{}", self.cx.path(adt.did()), v.name)
                                } else {
                                    self.cx.path(adt.did())
                                };
                            }
                        }
                    } else if let ty::Closure(did, _) = pty.ty.kind() {
                        if let Some(l) = did.as_local() {
                            let caps = self.tcx.closure_captures(l);
                            if let Some(c) = caps.get(f.index()) {
                                name = c.to_symbol().to_string();
                            }
                            owner = self.cx.path(*did);
                        }
                    }
                    obj(vec![
                        ("k", s("field")),
                        ("i", i(f.index() as i128)),
                        ("name", s(name)),
                        ("owner", s(owner)),
                        ("ty", self.ty(fty)),
                    ])
                }
                ProjectionElem::Index(l) => obj(vec![("k", s("index")), ("local", i(l.index() as i128))]),
                ProjectionElem::ConstantIndex { offset, min_length, from_end } => obj(vec![
                    ("k", s("cindex")),
                    ("offset", i(offset as i128)),
                    ("min_length", i(min_length as i128)),
                    ("from_end", b(from_end)),
                ]),
                ProjectionElem::Subslice { from, to, from_end } => obj(vec![
                    ("k", s("subslice")),
                    ("from", i(from as i128)),
                    ("to", i(to as i128)),
                    ("from_end", b(from_end)),
                ]),
                ProjectionElem::Downcast(name, vidx) => {
                    let mut vname = name.map(|n| n.to_string()).unwrap_or_default();
                    let mut owner = String::new();
                    if let ty::Adt(adt, _) = pty.ty.kind() {
                        if let Some(v) = adt.variants().get(vidx) {
                            vname = v.name.to_string();
                        }
                        owner = self.cx.path(adt.did());
                    }
                    obj(vec![
                        ("k", s("downcast")),
                        ("variant", s(vname)),
                        ("vidx", i(vidx.index() as i128)),
                        ("owner", s(owner)),
                    ])
                }
                ProjectionElem::OpaqueCast(t) => obj(vec![("k", s("opaque_cast")), ("ty", self.ty(t))]),
                ProjectionElem::UnwrapUnsafeBinder(t) => obj(vec![("k", s("unwrap_binder")), ("ty", self.ty(t))]),
            };
            proj.push(e);
            pty = pty.projection_ty(self.tcx, elem);
        }
        obj(vec![("l", i(p.local.index() as i128)), ("p", arr(proj))])
    }

    fn operand(&self, op: &Operand<'tcx>) -> J {
        match op {
            Operand::Copy(p) => obj(vec![("k", s("copy")), ("place", self.place(p))]),
            Operand::Move(p) => obj(vec![("k", s("move")), ("place", self.place(p))]),
            Operand::Constant(c) => self.constant(c),
            _ => obj(vec![("k", s("runtime_checks"))]),
        }
    }

    fn constant(&self, c: &ConstOperand<'tcx>) -> J {
        let t = c.const_.ty();
        let mut o = vec![("k", s("const")), ("ty", self.ty(t))];
        if let Some(did) = c.check_static_ptr(self.tcx) {
            o.push(("static", s(self.cx.path(did))));
        }
        match t.kind() {
            ty::FnDef(did, args) => {
                o.push(("fn", callee(self.cx, self.env, *did, args)));
            }
            ty::Closure(did, _) => {
                o.push(("closure", s(self.cx.path(*did))));
            }
            _ => {
                if t.is_integral() || t.is_bool() || t.is_char() {
                    if let Some(si) = c.const_.try_eval_scalar_int(self.tcx, self.env) {
                        let size = si.size();
                        let bits = si.to_bits(size);
                        let v: i128 = if t.is_signed() {
                            size.sign_extend(bits) as i128
                        } else {
                            bits as i128
                        };
                        o.push(("val", J::Int(v)));
                    }
                } else if t.is_floating_point() {
                    if let Some(si) = c.const_.try_eval_scalar_int(self.tcx, self.env) {
                        let size = si.size();
                        let bits = si.to_bits(size);
                        let f = if size.bytes() == 8 { f64::from_bits(bits as u64) } else { f32::from_bits(bits as u32) as f64 };
                        o.push(("fval", s(format!("{}", f))));
                    }
                } else {
                    o.push(("text", s(format!("{}", c.const_))));
                }
            }
        }
        obj(o)
    }

    fn rvalue(&self, rv: &Rvalue<'tcx>) -> J {
        match rv {
            Rvalue::Use(op, ..) => obj(vec![("k", s("use")), ("op", self.operand(op))]),
            Rvalue::Repeat(op, n) => obj(vec![("k", s("repeat")), ("op", self.operand(op)), ("n", s(format!("{}", n)))]),
            Rvalue::Ref(_, bk, p) => {
                let m = match bk {
                    BorrowKind::Shared => "shared",
                    BorrowKind::Fake(_) => "fake",
                    BorrowKind::Mut { .. } => "mut",
                };
                obj(vec![("k", s("ref")), ("mut", s(m)), ("place", self.place(p))])
            }
            Rvalue::ThreadLocalRef(d) => obj(vec![("k", s("tls")), ("path", s(self.cx.path(*d)))]),
            Rvalue::RawPtr(kind, p) => obj(vec![("k", s("rawptr")), ("mut", s(format!("{:?}", kind))), ("place", self.place(p))]),
            Rvalue::Cast(kind, op, t) => {
                note_size(self.cx, self.env, *t);
                obj(vec![
                    ("k", s("cast")),
                    ("kind", s(format!("{:?}", kind))),
                    ("op", self.operand(op)),
                    ("ty", self.ty(*t)),
                ])
            }
            Rvalue::BinaryOp(op, lr) => obj(vec![
                ("k", s("bin")),
                ("op", s(format!("{:?}", op))),
                ("l", self.operand(&lr.0)),
                ("r", self.operand(&lr.1)),
            ]),
            Rvalue::UnaryOp(op, x) => obj(vec![("k", s("un")), ("op", s(format!("{:?}", op))), ("x", self.operand(x))]),
            Rvalue::Discriminant(p) => {
                let t = p.ty(self.body, self.tcx).ty;
                obj(vec![("k", s("discr")), ("place", self.place(p)), ("of", self.ty(t)), ("adt", s(adt_path(self.cx, t)))])
            }
            Rvalue::Aggregate(kind, ops) => {
                let ops_j = arr(ops.iter().map(|o| self.operand(o)).collect());
                let kj = match &**kind {
                    AggregateKind::Array(t) => obj(vec![("k", s("array")), ("ty", self.ty(*t))]),
                    AggregateKind::Tuple => obj(vec![("k", s("tuple"))]),
                    AggregateKind::Adt(did, vidx, args, _, active) => {
                        let adt = self.tcx.adt_def(*did);
                        let v = adt.variant(*vidx);
                        let fields: Vec<J> = match active {
                            Some(f) => vec![s(v.fields[*f].name.to_string())],
                            None => v.fields.iter().map(|f| s(f.name.to_string())).collect(),
                        };
                        obj(vec![
                            ("k", s("adt")),
                            ("path", s(self.cx.path(*did))),
                            ("variant", s(v.name.to_string())),
                            ("vidx", i(vidx.index() as i128)),
                            ("is_enum", b(adt.is_enum())),
                            ("args", generic_args(self.cx, self.env, args)),
                            ("fields", arr(fields)),
                        ])
                    }
                    AggregateKind::Closure(did, _) => obj(vec![("k", s("closure")), ("path", s(self.cx.path(*did)))]),
                    AggregateKind::Coroutine(did, _) => obj(vec![("k", s("coroutine")), ("path", s(self.cx.path(*did)))]),
                    AggregateKind::CoroutineClosure(did, _) => {
                        obj(vec![("k", s("coroutine_closure")), ("path", s(self.cx.path(*did)))])
                    }
                    AggregateKind::RawPtr(t, _) => obj(vec![("k", s("rawptr")), ("ty", self.ty(*t))]),
                };
                obj(vec![("k", s("agg")), ("agg", kj), ("ops", ops_j)])
            }
            Rvalue::CopyForDeref(p) => obj(vec![("k", s("use")), ("op", obj(vec![("k", s("copy")), ("place", self.place(p))])), ("deref_copy", b(true))]),
            Rvalue::WrapUnsafeBinder(op, t) => obj(vec![("k", s("wrap_binder")), ("op", self.operand(op)), ("ty", self.ty(*t))]),
        }
    }

    fn stmt(&self, st: &Statement<'tcx>) -> Option<J> {
        let ln = self.cx.line(st.source_info.span);
        let exp = st.source_info.span.from_expansion();
        match &st.kind {
            StatementKind::Assign(bx) => {
                let (p, rv) = &**bx;
                Some(obj(vec![("k", s("assign")), ("place", self.place(p)), ("rv", self.rvalue(rv)), ("ln", ln), ("exp", b(exp))]))
            }
            StatementKind::SetDiscriminant { place, variant_index } => {
                let t = place.ty(self.body, self.tcx).ty;
                let mut vname = String::new();
                if let ty::Adt(adt, _) = t.kind() {
                    vname = adt.variant(*variant_index).name.to_string();
                }
                Some(obj(vec![
                    ("k", s("set_discr")),
                    ("place", self.place(place)),
                    ("variant", s(vname)),
                    ("ln", ln),
                ]))
            }
            StatementKind::Intrinsic(bx) => match &**bx {
                NonDivergingIntrinsic::Assume(op) => Some(obj(vec![("k", s("assume")), ("op", self.operand(op)), ("ln", ln)])),
                NonDivergingIntrinsic::CopyNonOverlapping(c) => Some(obj(vec![
                    ("k", s("copy_nonoverlapping")),
                    ("src", self.operand(&c.src)),
                    ("dst", self.operand(&c.dst)),
                    ("count", self.operand(&c.count)),
                    ("ln", ln),
                ])),
            },
            StatementKind::StorageDead(l) => Some(obj(vec![("k", s("dead")), ("l", i(l.index() as i128))])),
            StatementKind::StorageLive(l) => Some(obj(vec![("k", s("live")), ("l", i(l.index() as i128))])),
            _ => None,
        }
    }

    fn unwind(&self, u: &UnwindAction) -> J {
        match u {
            UnwindAction::Cleanup(bb) => i(bb.index() as i128),
            _ => J::Null,
        }
    }

    fn term(&self, t: &Terminator<'tcx>) -> J {
        let ln = self.cx.line(t.source_info.span);
        let exp = t.source_info.span.from_expansion();
        match &t.kind {
            TerminatorKind::Goto { target } => obj(vec![("k", s("goto")), ("target", i(target.index() as i128))]),
            TerminatorKind::SwitchInt { discr, targets } => {
                let mut ts = Vec::new();
                for (v, bb) in targets.iter() {
                    ts.push(arr(vec![J::Int(v as i128), i(bb.index() as i128)]));
                }
                obj(vec![
                    ("k", s("switch")),
                    ("discr", self.operand(discr)),
                    ("discr_ty", self.ty(discr.ty(self.body, self.tcx))),
                    ("targets", arr(ts)),
                    ("otherwise", i(targets.otherwise().index() as i128)),
                    ("ln", ln),
                ])
            }
            TerminatorKind::UnwindResume => obj(vec![("k", s("resume"))]),
            TerminatorKind::UnwindTerminate(_) => obj(vec![("k", s("terminate"))]),
            TerminatorKind::Return => obj(vec![("k", s("return")), ("ln", ln)]),
            TerminatorKind::Unreachable => obj(vec![("k", s("unreachable"))]),
            TerminatorKind::Drop { place, target, unwind, .. } => {
                let pt = place.ty(self.body, self.tcx).ty;
                obj(vec![
                    ("k", s("drop")),
                    ("place", self.place(place)),
                    ("ty", self.ty(pt)),
                    ("target", i(target.index() as i128)),
                    ("unwind", self.unwind(unwind)),
                    ("ln", ln),
                ])
            }
            TerminatorKind::Call { func, args, destination, target, unwind, call_source, fn_span } => {
                let fty = func.ty(self.body, self.tcx);
                let fj = match fty.kind() {
                    ty::FnDef(did, gargs) => callee(self.cx, self.env, *did, gargs),
                    _ => obj(vec![("indirect", self.operand(func)), ("fn_ty", self.ty(fty))]),
                };
                obj(vec![
                    ("k", s("call")),
                    ("func", fj),
                    ("args", arr(args.iter().map(|a| self.operand(&a.node)).collect())),
                    ("arg_tys", arr(args.iter().map(|a| self.ty(a.node.ty(self.body, self.tcx))).collect())),
                    ("dest", self.place(destination)),
                    ("target", opt(target.map(|t| i(t.index() as i128)))),
                    ("unwind", self.unwind(unwind)),
                    ("source", s(format!("{:?}", call_source))),
                    ("ln", self.cx.line(*fn_span)),
                    ("exp", b(exp || fn_span.from_expansion())),
                ])
            }
            TerminatorKind::TailCall { func, args, .. } => obj(vec![
                ("k", s("tailcall")),
                ("func", self.operand(func)),
                ("args", arr(args.iter().map(|a| self.operand(&a.node)).collect())),
            ]),
            TerminatorKind::Assert { cond, expected, msg, target, unwind } => {
                let (mk, extra) = match &**msg {
                    AssertKind::BoundsCheck { len, index } => ("BoundsCheck", vec![self.operand(len), self.operand(index)]),
                    AssertKind::Overflow(op, l, r) => {
                        ("Overflow", vec![s(format!("{:?}", op)), self.operand(l), self.operand(r), self.ty(l.ty(self.body, self.tcx))])
                    }
                    AssertKind::OverflowNeg(o) => ("OverflowNeg", vec![self.operand(o)]),
                    AssertKind::DivisionByZero(o) => ("DivisionByZero", vec![self.operand(o)]),
                    AssertKind::RemainderByZero(o) => ("RemainderByZero", vec![self.operand(o)]),
                    AssertKind::MisalignedPointerDereference { .. } => ("Misaligned", vec![]),
                    AssertKind::NullPointerDereference => ("NullDeref", vec![]),
                    AssertKind::InvalidEnumConstruction(_) => ("InvalidEnum", vec![]),
                    _ => ("Other", vec![]),
                };
                obj(vec![
                    ("k", s("assert")),
                    ("cond", self.operand(cond)),
                    ("expected", b(*expected)),
                    ("msg", s(mk)),
                    ("msg_ops", arr(extra)),
                    ("target", i(target.index() as i128)),
                    ("unwind", self.unwind(unwind)),
                    ("ln", ln),
                ])
            }
            TerminatorKind::FalseEdge { real_target, .. } => obj(vec![("k", s("goto")), ("target", i(real_target.index() as i128))]),
            TerminatorKind::FalseUnwind { real_target, .. } => obj(vec![("k", s("goto")), ("target", i(real_target.index() as i128))]),
            _ => obj(vec![("k", s("other")), ("text", s(format!("{:?}", t.kind)))]),
        }
    }
}

pub fn adt_path<'tcx>(cx: &Ctx<'tcx>, t: Ty<'tcx>) -> String {
    match t.kind() {
        ty::Adt(adt, _) => cx.path(adt.did()),
        _ => String::new(),
    }
}

pub fn dump_body<'tcx>(cx: &Ctx<'tcx>, ldid: LocalDefId) -> J {
    let tcx = cx.tcx;
    let did = ldid.to_def_id();
    let body: &Body<'tcx> = tcx.optimized_mir(did);
    let env = TypingEnv::post_analysis(tcx, did);
    let bx = B { cx, tcx, body, env };

    let mut names: Vec<Option<String>> = vec![None; body.local_decls.len()];
    for vdi in body.var_debug_info.iter() {
        if let VarDebugInfoContents::Place(p) = &vdi.value {
            if p.projection.is_empty() {
                names[p.local.index()] = Some(vdi.name.to_string());
            }
        }
    }
    let locals: Vec<J> = body
        .local_decls
        .iter_enumerated()
        .map(|(l, d)| {
            obj(vec![
                ("ty", s(d.ty.to_string())),
                ("adt", s(adt_path(cx, d.ty.peel_refs()))),
                ("name", opt(names[l.index()].clone().map(s))),
                ("user", b(names[l.index()].is_some())),
                ("ln", cx.line(d.source_info.span)),
            ])
        })
        .collect();
    let blocks: Vec<J> = body
        .basic_blocks
        .iter()
        .map(|bb| {
            let stmts: Vec<J> = bb.statements.iter().filter_map(|st| bx.stmt(st)).collect();
            obj(vec![("stmts", arr(stmts)), ("term", bx.term(bb.terminator())), ("cleanup", b(bb.is_cleanup))])
        })
        .collect();
    obj(vec![("arg_count", i(body.arg_count as i128)), ("locals", arr(locals)), ("blocks", arr(blocks))])
}
