//! ADTs (fields, variants, discriminants, sizes, unparsed attributes such as serde(..)) and statics.
use crate::json::*;
use crate::mirdump::note_size;
use crate::Ctx;
use rustc_hir as hir;
use rustc_hir::def::DefKind;
use rustc_middle::ty::{self, TypingEnv};

fn attrs<'tcx>(cx: &Ctx<'tcx>, did: rustc_hir::def_id::DefId) -> J {
    let mut v = Vec::new();
    if let Some(l) = did.as_local() {
        let hid = cx.tcx.local_def_id_to_hir_id(l);
        for a in cx.tcx.hir_attrs(hid) {
            if let hir::Attribute::Unparsed(item) = a {
                let path = item.path.segments.iter().map(|s| s.to_string()).collect::<Vec<_>>().join("::");
                let text = cx.tcx.sess.source_map().span_to_snippet(item.span).unwrap_or_default();
                v.push(obj(vec![("path", s(path)), ("text", s(text))]));
            }
        }
    }
    arr(v)
}

pub fn dump_adts<'tcx>(cx: &Ctx<'tcx>) -> J {
    let tcx = cx.tcx;
    let mut out = Vec::new();
    for id in tcx.hir_free_items() {
        let did = id.owner_id.to_def_id();
        let dk = tcx.def_kind(did);
        if !matches!(dk, DefKind::Struct | DefKind::Enum | DefKind::Union) {
            continue;
        }
        let adt = tcx.adt_def(did);
        let (file, line, _) = cx.loc(tcx.def_span(did));
        let generics = tcx.generics_of(did);
        let n_ty_params = generics.own_params.iter().filter(|p| matches!(p.kind, ty::GenericParamDefKind::Type { .. })).count();
        let self_ty = tcx.type_of(did).instantiate_identity().skip_norm_wip();
        let env = TypingEnv::post_analysis(tcx, did);
        if n_ty_params == 0 {
            note_size(cx, env, self_ty);
        }
        let mut variants = Vec::new();
        for (vidx, v) in adt.variants().iter_enumerated() {
            let discr = if adt.is_enum() { Some(adt.discriminant_for_variant(tcx, vidx).val as i128) } else { None };
            let fields: Vec<J> = v
                .fields
                .iter()
                .map(|f| {
                    let fty = tcx.type_of(f.did).instantiate_identity().skip_norm_wip();
                    note_size(cx, env, fty);
                    obj(vec![
                        ("name", s(f.name.to_string())),
                        ("ty", s(fty.to_string())),
                        ("vis", s(format!("{:?}", f.vis))),
                        ("attrs", attrs(cx, f.did)),
                    ])
                })
                .collect();
            variants.push(obj(vec![
                ("name", s(v.name.to_string())),
                ("discr", opt(discr.map(J::Int))),
                ("fields", arr(fields)),
                ("attrs", attrs(cx, v.def_id)),
            ]));
        }
        out.push(obj(vec![
            ("path", s(cx.path(did))),
            ("kind", s(format!("{:?}", dk))),
            ("file", s(file)),
            ("line", i(line as i128)),
            ("ty_params", i(n_ty_params as i128)),
            ("self_ty", s(self_ty.to_string())),
            ("attrs", attrs(cx, did)),
            ("variants", arr(variants)),
            ("vis", s(format!("{:?}", tcx.visibility(did)))),
        ]));
    }
    arr(out)
}

pub fn dump_statics<'tcx>(cx: &Ctx<'tcx>) -> J {
    let tcx = cx.tcx;
    let mut out = Vec::new();
    for id in tcx.hir_free_items() {
        let did = id.owner_id.to_def_id();
        if let DefKind::Static { mutability, .. } = tcx.def_kind(did) {
            let t = tcx.type_of(did).instantiate_identity().skip_norm_wip();
            let (file, line, _) = cx.loc(tcx.def_span(did));
            let env = TypingEnv::post_analysis(tcx, did);
            let freeze = t.is_freeze(tcx, env);
            out.push(obj(vec![
                ("path", s(cx.path(did))),
                ("ty", s(t.to_string())),
                ("mutable", b(mutability.is_mut())),
                ("interior_mutable", b(!freeze)),
                ("file", s(file)),
                ("line", i(line as i128)),
            ]));
        }
    }
    arr(out)
}
