//! caofacts: a rustc_private driver that dumps the resolved program (types, MIR, HIR with typeck
//! results) of the crate `cao_lang` as one JSON fact file. It contains no rule.
//!
//! Usage: RUSTC_WORKSPACE_WRAPPER=<this> CAOFACTS_OUT=<file> cargo +nightly check -p cao-lang --lib
#![feature(rustc_private)]
#![allow(clippy::all)]

extern crate rustc_abi;
extern crate rustc_ast;
extern crate rustc_driver;
extern crate rustc_hir;
extern crate rustc_interface;
extern crate rustc_middle;
extern crate rustc_session;
extern crate rustc_span;

mod hirdump;
mod json;
mod mirdump;
mod tydump;

use json::*;
use rustc_driver::Compilation;
use rustc_hir::def::DefKind;
use rustc_middle::ty::TyCtxt;
use rustc_span::Span;

pub struct Ctx<'tcx> {
    pub tcx: TyCtxt<'tcx>,
    pub sizes: std::cell::RefCell<std::collections::BTreeMap<String, u64>>,
}

impl<'tcx> Ctx<'tcx> {
    pub fn loc(&self, sp: Span) -> (String, usize, usize) {
        // use the call-site of macro expansions so that lines refer to the crate's own source
        let sp = sp.source_callsite();
        let sm = self.tcx.sess.source_map();
        let lo = sm.lookup_char_pos(sp.lo());
        let hi = sm.lookup_char_pos(sp.hi());
        let name = format!("{}", lo.file.name.prefer_local_unconditionally());
        (name, lo.line, hi.line)
    }
    pub fn line(&self, sp: Span) -> J {
        if sp.is_dummy() {
            return J::Null;
        }
        i(self.loc(sp).1 as i128)
    }
    pub fn path(&self, did: rustc_hir::def_id::DefId) -> String {
        self.tcx.def_path_str(did)
    }
}

struct Cb;

impl rustc_driver::Callbacks for Cb {
    fn after_analysis<'tcx>(
        &mut self,
        _compiler: &rustc_interface::interface::Compiler,
        tcx: TyCtxt<'tcx>,
    ) -> Compilation {
        let krate = tcx.crate_name(rustc_hir::def_id::LOCAL_CRATE).to_string();
        let want = std::env::var("CAOFACTS_CRATE").unwrap_or_else(|_| "cao_lang".to_string());
        if krate != want {
            return Compilation::Continue;
        }
        let out = match std::env::var("CAOFACTS_OUT") {
            Ok(o) => o,
            Err(_) => return Compilation::Continue,
        };
        let cx = Ctx { tcx, sizes: Default::default() };
        let mut fns = Vec::new();
        for ldid in tcx.hir_body_owners() {
            let did = ldid.to_def_id();
            let dk = tcx.def_kind(did);
            let is_fn = matches!(dk, DefKind::Fn | DefKind::AssocFn | DefKind::Closure);
            let (file, l0, l1) = cx.loc(tcx.def_span(did));
            let body_span = tcx.hir_body_owned_by(ldid).value.span;
            let (_, b0, b1) = cx.loc(body_span);
            let mut o: Vec<(&'static str, J)> = vec![
                ("path", s(cx.path(did))),
                ("def_kind", s(format!("{:?}", dk))),
                ("file", s(file)),
                ("line", i(l0 as i128)),
                ("end_line", i(l1.max(b1) as i128)),
                ("body_line", i(b0 as i128)),
                ("from_expansion", b(tcx.def_span(did).from_expansion())),
            ];
            if matches!(dk, DefKind::Fn | DefKind::AssocFn) {
                o.push(("vis", s(format!("{:?}", tcx.visibility(did)))));
                let sig = tcx.fn_sig(did).instantiate_identity().skip_norm_wip().skip_binder();
                o.push((
                    "sig",
                    obj(vec![
                        ("inputs", arr(sig.inputs().iter().map(|t| s(t.to_string())).collect())),
                        ("output", s(sig.output().to_string())),
                    ]),
                ));
                if let Some(imp) = tcx.impl_of_assoc(did) {
                    o.push(("impl_self", s(tcx.type_of(imp).instantiate_identity().skip_norm_wip().to_string())));
                    if let Some(tr) = tcx.impl_opt_trait_ref(imp) {
                        o.push(("impl_trait", s(cx.path(tr.instantiate_identity().skip_norm_wip().def_id))));
                    }
                }
            }
            if matches!(dk, DefKind::Closure) {
                let parent = tcx.typeck_root_def_id(did);
                o.push(("root", s(cx.path(parent))));
                o.push(("parent", s(cx.path(tcx.parent(did)))));
                let caps = tcx.closure_captures(ldid);
                o.push((
                    "captures",
                    arr(caps
                        .iter()
                        .map(|c| {
                            obj(vec![
                                ("name", s(c.to_symbol().to_string())),
                                ("var", s(c.var_ident.name.to_string())),
                                ("by_ref", b(c.is_by_ref())),
                                ("ty", s(c.place.ty().to_string())),
                            ])
                        })
                        .collect()),
                ));
            }
            if is_fn {
                o.push(("mir", mirdump::dump_body(&cx, ldid)));
            }
            o.push(("hir", hirdump::dump_body(&cx, ldid)));
            fns.push(obj(o));
        }
        let adts = tydump::dump_adts(&cx);
        let statics = tydump::dump_statics(&cx);
        let sizes = cx
            .sizes
            .borrow()
            .iter()
            .map(|(k, v)| obj(vec![("ty", s(k.clone())), ("size", i(*v as i128))]))
            .collect();
        let root = obj(vec![
            ("crate", s(krate)),
            ("cfg_features", arr(std::env::var("CAOFACTS_TAG").ok().map(|t| vec![s(t)]).unwrap_or_default())),
            ("fns", arr(fns)),
            ("adts", adts),
            ("statics", statics),
            ("sizes", arr(sizes)),
        ]);
        let mut text = String::new();
        root.write(&mut text);
        std::fs::write(&out, text).expect("caofacts: cannot write fact file");
        Compilation::Continue
    }
}

fn main() {
    let mut args: Vec<String> = std::env::args().collect();
    // RUSTC_WORKSPACE_WRAPPER passes the real rustc path as argv[1]
    if args.len() > 1 && (args[1].ends_with("rustc") || args[1].contains("/rustc")) {
        args.remove(1);
    }
    rustc_driver::run_compiler(&args, &mut Cb);
}
