#!/usr/bin/env python3
"""Register the refactored / feature trees as self-test equivalents: one entry per (tree, property) on which the check is
silent according to a status file written by tools/run_equiv.py --json.   tools/index_equiv_rounds.py status.json"""
import json, os, sys, glob
V = os.path.dirname(os.path.dirname(os.path.abspath(__file__)))
st = json.load(open(sys.argv[1]))
idxp = os.path.join(V, "selftest", "index.json")
idx = json.load(open(idxp))
idx["mutants"] = [m for m in idx["mutants"] if not m["name"].startswith("eqr-")]
patches = {}
for d in ("eqround1", "eqround2", "ftround1", "eqround3", "eqround4"):
    for p in glob.glob(os.path.join(V, "selftest", d, "*.diff")):
        patches[os.path.basename(p).split("-")[0]] = os.path.join(d, os.path.basename(p))
n = 0
skipped = []
for tree, per in sorted(st.items()):
    if tree not in patches:
        continue
    for prop, code in sorted(per.items()):
        if code == 0:
            idx["mutants"].append({"name": "eqr-%s-%s" % (tree, prop), "property": prop, "patch": patches[tree], "kind": "equivalent"})
            n += 1
        else:
            skipped.append((tree, prop, code))
json.dump(idx, open(idxp, "w"), indent=1)
print("registered %d equivalents; not silent (not registered): %s" % (n, skipped))
