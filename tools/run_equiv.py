#!/usr/bin/env python3
"""Run the quick checks of all 19 properties against behaviour-preserving variants of /repo: every check must stay silent
(exit 0, no VIOLATION, no CHECKER-* line).
usage: tools/run_equiv.py [-p Cnn,..] <patch.diff | tree-dir>...    (a patch is applied to a scratch copy under /tmp/eqtrees)"""
import json, os, subprocess, sys, shutil
V = os.path.dirname(os.path.dirname(os.path.abspath(__file__)))
def sh(*a, **k): return subprocess.run(a, capture_output=True, text=True, **k)
args = sys.argv[1:]
json_out = None
if "--json" in args:
    i = args.index("--json"); json_out = args[i + 1]; args = args[:i] + args[i + 2:]
status = {}
props = ["C%02d" % i for i in range(1, 20)]
if args and args[0] == "-p":
    props = args[1].split(","); args = args[2:]
rc = 0
for p in args:
    if os.path.isdir(p):
        tree = p
    else:
        name = os.path.basename(p).rsplit(".", 1)[0]
        tree = os.path.join("/tmp/eqtrees", name)
        shutil.rmtree(tree, ignore_errors=True); os.makedirs(tree)
        subprocess.run("git -C /repo archive HEAD | tar -x -C %s" % tree, shell=True, check=True)
        r = sh("patch", "-p1", "-s", "-i", os.path.abspath(p), cwd=tree)
        if r.returncode:
            print(p, "does not apply:", r.stdout, r.stderr); rc = 1; continue
    bad = []
    for c in props:
        r = sh(os.path.join(V, "check"), c, "--repo", tree, "--no-evidence", cwd=V)
        status.setdefault(os.path.basename(p.rstrip("/")), {})[c] = r.returncode
        if r.returncode != 0:
            lines = [l for l in (r.stdout + r.stderr).splitlines() if l.startswith("  violation") or l.startswith("CHECKER") or "Error" in l or "Traceback" in l]
            bad.append((c, r.returncode, lines))
    print(os.path.basename(p.rstrip("/")), "SILENT" if not bad else "ALARMS:")
    for c, code, lines in bad:
        rc = 1
        print("  %s exit %d" % (c, code))
        for l in lines[:12]: print("     ", l.strip()[:260])
if json_out:
    json.dump(status, open(json_out, "w"), indent=1)
sys.exit(rc)
