#!/usr/bin/env python3
"""Write the prompt for a seeding sub-agent: tools/mkprompt.py <round-dir> <Cnn> [kind]
The prompt holds the text of ONE property, the agent's own scratch worktree and the one-line descriptions of earlier seeded
changes for that property (so that it picks something else) - nothing else from /verif."""
import json, os, sys, re
V = os.path.dirname(os.path.dirname(os.path.abspath(__file__)))

def earlier(pid):
    out = []
    d = os.path.join(V, "seeded")
    for s in sorted(os.listdir(d)):
        m = os.path.join(d, s, "meta.json")
        if s.startswith(pid + "-") and os.path.exists(m):
            out.append(json.load(open(m))["change"])
    return out

def prompt(rdir, pid):
    p = [json.loads(l) for l in open(os.path.join(V, "properties.jsonl")) if l.strip()]
    p = [x for x in p if x["id"] == pid][0]
    wt = "%s/z%s" % (rdir, pid[1:])
    prev = earlier(pid)
    note = ""
    if prev:
        note = "NOTE: earlier attempts (by other people, not present in your tree) already did the following; pick something DIFFERENT, in a different function or clause of the property where possible:\n" + "\n".join("  - " + c for c in prev) + "\n"
    return f"""You are working in a scratch git worktree of the Rust project "cao-lang" (a card-based scripting language: AST-to-bytecode compiler, stack VM, mark-sweep GC, custom hash tables) located at {wt}. Work ONLY inside {wt}; never read or write anything under /verif or /repo. There is no network; the project builds offline.

Build/test command (use a private target dir so you do not collide with others):
    cd {wt} && CARGO_TARGET_DIR={wt}/target cargo test -p cao-lang --offline
(the existing suite has 101 tests in the workspace plus 4 doc tests; the first build takes about a minute).
IMPORTANT: other workers use sibling worktrees of the same repository. NEVER use `git stash` (the stash is shared between worktrees) and never run git commands that touch other worktrees or branches. To check your demo without your change use `git diff -- cao-lang/src > {wt}/my.diff; git apply -R {wt}/my.diff; ...; git apply {wt}/my.diff`.

Here is a semantic property that the library is supposed to satisfy:

--- PROPERTY {pid}: {p['title']}
STATEMENT: {p['statement']}
QUANTIFIER: {p['quantifier']['text']}
WHY THE EXISTING TESTS CANNOT SETTLE IT: {p['why_tests_cant']}
RELEVANT FILES: {', '.join(p['anchors']['files'])}
---

YOUR TASK: produce ONE small, realistic change to the library source under {wt}/cao-lang/src that BREAKS this property, such that
 (a) the crate still compiles,
 (b) ALL existing tests still pass with your change,
 (c) the breakage needs something specific to manifest - a particular multi-step sequence of operations, an unusual input, a composition of features, a particular GC/allocation point, a fault at a particular point, or two cooperating sites that each look fine alone - NOT something that ordinary use would expose at once,
 (d) it looks like a plausible refactoring / optimisation / "simplification" mistake a real contributor could make, not sabotage.
Read the code first and pick a change that a reviewer could miss.
{note}ALSO: if, while reading, you notice behaviour of the UNCHANGED code that already seems to violate the property, describe it briefly at the end of your README under a heading "Existing issues noticed" (do not fix it, do not build your seed on it).

Then write a DEMONSTRATION: a Rust test (preferably an integration test file {wt}/cao-lang/tests/seed_demo.rs that uses the public API; a unit test inside the crate is acceptable only if you need crate-private items) that FAILS (or panics / hangs with a bounded watchdog / reads wrong data) with your change and PASSES without it. Verify BOTH directions yourself. Also verify that the existing test suite (everything except your demo) passes with the change applied.

DELIVERABLES, all inside {wt}/SEED/ :
  - patch.diff : `git diff -- cao-lang/src` of the library change ONLY (paths relative to the repo root, must apply with `git apply`), without the demo
  - demo.rs    : the demonstration test file (say at the top where it has to be placed)
  - README.md  : which clause of the property is broken, what it needs in order to manifest, the exact commands you ran and what they printed (pass/fail in both directions)
When you are done, delete {wt}/target (rm -rf) to free disk space, leave the worktree otherwise as it is (library change applied, demo in place).
Finish with a short summary of the change (and of any existing issue you noticed).
"""

if __name__ == "__main__":
    print(prompt(sys.argv[1], sys.argv[2]))
