import sys, json
sys.path.insert(0,'/verif')
from cao.facts import *
def pp(e, ind=0, out=None):
    """compact pretty printer for HIR json"""
    if out is None: out=[]
    sp='  '*ind
    if e is None: out.append(sp+'None'); return out
    k=e.get('k')
    def line(s): out.append(sp+s)
    if k=='path':
        r=e['path']['res']; line('path %s %s : %s'%(r['k'], r.get('name') or r.get('path'), e.get('ty','')[:60]))
    elif k=='lit': line('lit %s'%e['lit'].get('v'))
    elif k in('call','mcall'):
        line('%s %s : %s'%(k, hir_callee(e) or e.get('name'), e.get('ty','')[:60]))
        if k=='mcall': pp(e['recv'],ind+1,out)
        else:
            if not hir_callee(e): pp(e['f'],ind+1,out)
        for a in e['args']: pp(a,ind+1,out)
    elif k=='match':
        line('match(%s)'%e['source']); pp(e['scrut'],ind+1,out)
        for a in e['arms']:
            line(' arm %s'%pat_s(a['pat']))
            if a.get('guard'): pp(a['guard'],ind+2,out)
            pp(a['body'],ind+2,out)
    elif k=='block':
        line('block')
        for st in e['block']['stmts']:
            if st['k']=='let':
                line(' let %s ='%pat_s(st['pat'])); pp(st.get('init'),ind+2,out)
                if st.get('els'): line(' else'); 
            elif st['k'] in('semi','expr'): pp(st['e'],ind+1,out)
        if e['block'].get('expr'): line(' tail:'); pp(e['block']['expr'],ind+1,out)
    elif k=='closure':
        line('closure %s'%[pat_s(p) for p in e['params']]); pp(e['body'],ind+1,out)
    elif k=='loop':
        line('loop(%s)'%e['source'])
        for x in block_exprs(e['body']): pp(x,ind+1,out)
    else:
        extra=''
        for key in('op','name','mutbl'):
            if key in e: extra+=' %s=%s'%(key,e[key])
        line('%s%s : %s'%(k,extra,e.get('ty','')[:50]))
        for c in hir_children(e): pp(c,ind+1,out)
    return out
def pat_s(p):
    k=p.get('k')
    if k=='bind': return p['name']+('@'+pat_s(p['sub']) if 'sub' in p else '')
    if k=='wild': return '_'
    if k in('tuple_struct',): return p['path']['text']+'('+','.join(pat_s(x) for x in p['pats'])+')'
    if k=='struct': return p['path']['text']+'{'+','.join(f['name']+':'+pat_s(f['pat']) for f in p['fields'])+'}'
    if k=='or': return '|'.join(pat_s(x) for x in p['pats'])
    if k=='expr': return str(p.get('lit',{}).get('v', p.get('path',{}).get('text')))
    if k in('ref','box','deref'): return '&'+pat_s(p['pat'])
    if k=='tuple': return '('+','.join(pat_s(x) for x in p['pats'])+')'
    return k
if __name__=='__main__':
    import glob
    from cao import extract as _ex; import os; F=Facts(_ex.get_facts(os.environ.get('REPO','/repo'),'default')[0])
    f=F.fn(sys.argv[1])
    lo=int(sys.argv[2]) if len(sys.argv)>2 else 0; hi=int(sys.argv[3]) if len(sys.argv)>3 else 10**9
    print('\n'.join(pp(f.hir['body'])[lo:hi]))
