#!/bin/bash
# Confirm seeded changes in a scratch worktree of /repo (outside /repo and /verif; removed afterwards):
#   with the change:   the crate builds, the existing suite passes, the demonstration fails
#   without it:        the demonstration passes
# usage: tools/confirm_seed.sh <seed-id>...     writes /verif/seeded/<id>/confirm.log
set -u
export CARGO_NET_OFFLINE=true
W=$(mktemp -d /tmp/confirm-seed.XXXXXX)
git -C /repo worktree add --detach "$W/wt" HEAD >/dev/null 2>&1 || { echo "cannot create worktree"; exit 2; }
# include uncommitted changes of /repo (normally none)
git -C /repo diff HEAD | git -C "$W/wt" apply --allow-empty 2>/dev/null
export CARGO_TARGET_DIR="$W/target"
rc=0
for id in "$@"; do
  d=/verif/seeded/$id
  log=$d/confirm.log
  : > "$log"
  cd "$W/wt"
  git checkout -q -- . ; rm -f cao-lang/tests/seed_demo.rs
  if ! git apply "$d/patch.diff"; then echo "$id: patch does not apply" | tee -a "$log"; rc=1; continue; fi
  # 1. existing suite with the change (demo not yet present)
  cargo test --workspace --no-fail-fast --offline >"$W/suite.txt" 2>&1; s=$?
  pass=$(grep -E '^test result' "$W/suite.txt" | awk '{p+=$4; f+=$6} END{print p" passed "f" failed"}')
  echo "with change, existing suite: exit=$s  $pass" >> "$log"
  # 2. demo with the change
  cp "$d/demo.rs" cao-lang/tests/seed_demo.rs
  cargo test -p cao-lang --offline --test seed_demo >"$W/demo1.txt" 2>&1; d1=$?
  echo "with change, demo: exit=$d1  $(grep -E '^test result' "$W/demo1.txt")" >> "$log"
  grep -E "^test .*FAILED|panicked at" "$W/demo1.txt" | head -8 >> "$log"
  # 3. demo without the change
  git apply -R "$d/patch.diff"
  cargo test -p cao-lang --offline --test seed_demo >"$W/demo0.txt" 2>&1; d0=$?
  echo "without change, demo: exit=$d0  $(grep -E '^test result' "$W/demo0.txt")" >> "$log"
  rm -f cao-lang/tests/seed_demo.rs
  grep -E "signal|free\(\)|SIGSEGV|SIGABRT" "$W/demo1.txt" | head -3 >> "$log"
  # the demo fails with the change: a FAILED summary, or the test binary died (abort / segfault) after it was built
  if [ $s -eq 0 ] && [ $d1 -ne 0 ] && [ $d0 -eq 0 ] && { grep -q 'test result: FAILED' "$W/demo1.txt" || grep -q 'Running tests/seed_demo.rs' "$W/demo1.txt"; }; then
     echo "CONFIRMED" >> "$log"; echo "$id CONFIRMED ($pass)"
  else
     echo "NOT CONFIRMED" >> "$log"; echo "$id NOT CONFIRMED (suite=$s demo_with=$d1 demo_without=$d0)"; rc=1
  fi
done
cd /
git -C /repo worktree remove --force "$W/wt"; git -C /repo worktree prune
rm -rf "$W"
exit $rc
