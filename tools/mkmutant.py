#!/usr/bin/env python3
"""Create a mutant patch against /repo's current tree from (file, old, new) replacements.

usage (python):  from tools.mkmutant import make;  make("name", [("cao-lang/src/x.rs", old, new), ...])
The patch is written to /verif/selftest/<name>.diff (unified diff, -p1)."""
import difflib
import os

REPO = "/repo"
OUT = os.path.join(os.path.dirname(os.path.dirname(os.path.abspath(__file__))), "selftest")


def make(name, edits, count=1):
    by_file = {}
    for path, old, new in edits:
        by_file.setdefault(path, []).append((old, new))
    chunks = []
    for path, reps in by_file.items():
        with open(os.path.join(REPO, path)) as fh:
            src = fh.read()
        dst = src
        for old, new in reps:
            if old not in dst:
                raise SystemExit("mkmutant %s: pattern not found in %s:\n%s" % (name, path, old[:200]))
            dst = dst.replace(old, new, count)
        diff = difflib.unified_diff(src.splitlines(True), dst.splitlines(True), "a/" + path, "b/" + path)
        chunks.append("".join(diff))
    os.makedirs(OUT, exist_ok=True)
    with open(os.path.join(OUT, name + ".diff"), "w") as fh:
        fh.write("".join(chunks))
    return name + ".diff"
