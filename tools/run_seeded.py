#!/usr/bin/env python3
"""Run the quick checks of all 19 properties against each seeded change.

For each /verif/seeded/<id>/patch.diff:  git -C /repo apply, run ./check Cnn --no-evidence --json for
every property, git -C /repo checkout -- .   The result (which keys are reported, by which property)
is written to /verif/seeded/<id>/checks.json; nothing is written to /verif/evidence.

usage: tools/run_seeded.py [id...]
"""
import json, os, subprocess, sys
VERIF = os.path.dirname(os.path.dirname(os.path.abspath(__file__)))
PROPS = ["C%02d" % i for i in range(1, 20)]

def sh(*a, **k):
    return subprocess.run(a, capture_output=True, text=True, **k)

KNOWN = set((e["property"], e["key"]) for e in json.load(open(os.path.join(VERIF, "known_findings.json")))["findings"])

def main():
    global PROPS
    if "--target-only" in sys.argv:
        sys.argv.remove("--target-only")
        PROPS = None
    if "--scratch" in sys.argv:
        sys.argv = [a for a in sys.argv if a != "--scratch"] + ["--scratch"]
    ids = [a for a in sys.argv[1:] if a != "--scratch"] or sorted(os.listdir(os.path.join(VERIF, "seeded")))
    ids = [i for i in ids if os.path.exists(os.path.join(VERIF, "seeded", i, "patch.diff"))]
    if "--scratch" not in sys.argv and sh("git", "-C", "/repo", "status", "--porcelain", "--untracked-files=no").stdout.strip():
        print("/repo is not clean"); sys.exit(2)
    scratch = "--scratch" in sys.argv
    for sid in ids:
        d = os.path.join(VERIF, "seeded", sid)
        repo_args = []
        if scratch:
            # a scratch copy of /repo's sources with the change applied (used while other work needs /repo untouched)
            import tempfile, shutil
            tree = tempfile.mkdtemp(prefix="cao-seed-")
            subprocess.run("git -C /repo archive HEAD | tar -x -C %s" % tree, shell=True, check=True)
            r = sh("patch", "-p1", "-s", "--no-backup-if-mismatch", "-i", os.path.join(d, "patch.diff"), cwd=tree)
            repo_args = ["--repo", tree]
        else:
            r = sh("git", "-C", "/repo", "apply", os.path.join(d, "patch.diff"))
        if r.returncode:
            print(sid, "patch does not apply:", (r.stderr + r.stdout).strip()); continue
        out = {"seed": sid, "reported": {}, "errors": {}}
        try:
            for p in (PROPS or [sid.split("-")[0]]):
                r = sh(os.path.join(VERIF, "check"), p, "--no-evidence", "--json", *repo_args, cwd=VERIF)
                keys = []
                try:
                    j = json.loads(r.stdout)
                    keys = sorted(set(x["key"] for x in j if x["status"] == "violation" and (p, x["key"]) not in KNOWN))
                except Exception as e:
                    out["errors"][p] = "exit %d: %s" % (r.returncode, (r.stdout + r.stderr)[-300:])
                if keys:
                    out["reported"][p] = keys
                if r.returncode == 2 and p not in out["errors"]:
                    out["errors"][p] = "exit 2: " + (r.stdout + r.stderr)[-300:]
        finally:
            if scratch:
                shutil.rmtree(tree, ignore_errors=True)
            else:
                sh("git", "-C", "/repo", "checkout", "--", ".")
        if PROPS is None and os.path.exists(os.path.join(d, "checks.json")):
            # keep what other properties reported at the last full run
            old = json.load(open(os.path.join(d, "checks.json")))
            for k, v in old.get("reported", {}).items():
                if k != sid.split("-")[0]:
                    out["reported"].setdefault(k, v)
        json.dump(out, open(os.path.join(d, "checks.json"), "w"), indent=1)
        tgt = sid.split("-")[0]
        print("%-8s target %s: %s  | others: %s %s" % (
            sid, tgt, out["reported"].get(tgt, "MISSED"),
            {k: v for k, v in out["reported"].items() if k != tgt} or "-", out["errors"] or ""))

main()
