#!/bin/bash
# Confirm a seeded change whose demonstration is a *unit* test (it reads crate-private state).
# usage: tools/confirm_unit_seed.sh <seed-id> append <file-in-crate>      demo.rs is appended to that file
#        tools/confirm_unit_seed.sh <seed-id> module <dir-module.rs> <new-file>   demo.rs becomes <new-file>, `#[cfg(test)] mod seed_demo;` is added to <dir-module.rs>
set -u
export CARGO_NET_OFFLINE=true
id=$1; mode=$2
d=/verif/seeded/$id; log=$d/confirm.log; : > "$log"
W=$(mktemp -d /tmp/confirm-seed.XXXXXX)
git -C /repo worktree add --detach "$W/wt" HEAD >/dev/null 2>&1 || { echo "cannot create worktree"; exit 2; }
export CARGO_TARGET_DIR="$W/target"
cd "$W/wt"
place() {
  if [ "$mode" = append ]; then cat "$d/demo.rs" >> "$3"; else cp "$d/demo.rs" "$4"; printf '\n#[cfg(test)]\nmod seed_demo;\n' >> "$3"; fi
}
git apply "$d/patch.diff" || { echo "$id: patch does not apply" | tee -a "$log"; exit 1; }
cargo test --workspace --no-fail-fast --offline >"$W/suite.txt" 2>&1; s=$?
pass=$(grep -E '^test result' "$W/suite.txt" | awk '{p+=$4; f+=$6} END{print p" passed "f" failed"}')
echo "with change, existing suite (demo not yet placed): exit=$s  $pass" >> "$log"
place "$@"
cargo test -p cao-lang --offline --lib seed_demo >"$W/demo1.txt" 2>&1; d1=$?
echo "with change, demo (unit test, $mode): exit=$d1  $(grep -E '^test result' "$W/demo1.txt" | head -1)" >> "$log"
grep -E "^test .*FAILED|panicked at" "$W/demo1.txt" | head -6 >> "$log"
git apply -R "$d/patch.diff"
cargo test -p cao-lang --offline --lib seed_demo >"$W/demo0.txt" 2>&1; d0=$?
echo "without change, demo: exit=$d0  $(grep -E '^test result' "$W/demo0.txt" | head -1)" >> "$log"
if [ $s -eq 0 ] && [ $d1 -ne 0 ] && [ $d0 -eq 0 ] && grep -q 'test result: FAILED' "$W/demo1.txt"; then echo CONFIRMED >> "$log"; echo "$id CONFIRMED ($pass)"; rc=0; else echo "NOT CONFIRMED" >> "$log"; echo "$id NOT CONFIRMED (suite=$s demo_with=$d1 demo_without=$d0)"; rc=1; fi
cd /; git -C /repo worktree remove --force "$W/wt"; git -C /repo worktree prune; rm -rf "$W"; exit $rc
