import sys, json, importlib
sys.path.insert(0,'/verif')
from cao.facts import Facts
from cao import extract
import os
p,info=extract.get_facts(os.environ.get('REPO','/repo'),os.environ.get('CAO_CONFIG','default'))
print(info)
F=Facts(p)
mod=importlib.import_module('rules.'+sys.argv[1])
only=next((a for a in sys.argv[2:] if not a.startswith('-')),None)
for r in mod.RULES:
    if only and r.id!=only: continue
    res=r.fn(F)
    from collections import Counter
    print(r.id, Counter(x['status'] for x in res))
    for x in res:
        if x['status']!='ok' or '-v' in sys.argv: print('  ',x['status'],x['key'],x['loc'],x['msg'][:200])
