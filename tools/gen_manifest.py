#!/usr/bin/env python3
"""Regenerate /verif/MANIFEST.json from the rule modules that exist (rules/cNN.py) + manifest_meta.json."""
import importlib
import json
import os
import subprocess
import sys

VERIF = os.path.dirname(os.path.dirname(os.path.abspath(__file__)))
sys.path.insert(0, VERIF)

meta = json.load(open(os.path.join(VERIF, "manifest_meta.json")))
props = [json.loads(l) for l in open(os.path.join(VERIF, "properties.jsonl"))]
checks = []
not_applicable = []
for p in props:
    pid = p["id"]
    m = meta["properties"].get(pid, {})
    modpath = os.path.join(VERIF, "rules", pid.lower() + ".py")
    if os.path.exists(modpath) and not m.get("not_applicable"):
        mod = importlib.import_module("rules." + pid.lower())
        rules = ", ".join(r.id for r in mod.RULES)
        checks.append({
            "property_id": pid,
            "quick_cmd": "./check %s --tier quick" % pid,
            "thorough_cmd": "./check %s --tier thorough" % pid,
            "evidence_file": "/verif/evidence/%s.json" % pid,
            "replay_cmd_template": "./check %s --replay {path}" % pid,
            "engine": "caofacts+rules",
            "level_claimed": {
                "category": "other",
                "text": m.get("level_text", ""),
                "design_ref": "DESIGN.md section 3, %s" % pid,
            },
            "level_note": m.get("level_note", ""),
            "technique": m.get("technique", "static analysis over rustc HIR/MIR facts") + " [rules: %s]" % rules,
        })
    else:
        not_applicable.append({"property_id": pid, "reason": m.get("not_applicable", "no sound static rule built yet (see DESIGN.md)")})

commits = subprocess.check_output(["git", "-C", "/repo", "log", "--format=%h %s", "45a51c2..HEAD"], text=True).strip().splitlines()
manifest = {
    "version": 1,
    "setup_cmd": "python3 -m cao.extract build",
    "hooks": {
        "guard": "cao_lang_verif",
        "enable": "none needed: the checks are static and read /repo's source through a rustc driver; no cfg-guarded hook exists in /repo",
        "baseline_off_cmd": "cd /repo && cargo test --workspace --no-fail-fast --offline",
        "source_commits": [],
        "add_only": True,
    },
    "engines": [
        {"name": "caofacts", "path": "/verif/caofacts", "serves_properties": [c["property_id"] for c in checks],
         "kind_free_text": "rustc_private driver (nightly) dumping types, MIR (CFG, resolved callees) and HIR+typeck of crate cao_lang as JSON; contains no rule"},
        {"name": "rules", "path": "/verif/rules", "serves_properties": [c["property_id"] for c in checks],
         "kind_free_text": "python3 static rules (table agreement, pairing, dominance, dataflow) over the fact file; front end /verif/check"},
    ],
    "checks": checks,
    "notes": meta.get("notes", "") + " Unguarded fix: commits in /repo (repairs of genuine defects, not hooks): " + "; ".join(commits),
    "not_applicable": not_applicable,
}
json.dump(manifest, open(os.path.join(VERIF, "MANIFEST.json"), "w"), indent=1)
print("MANIFEST.json: %d checks, %d not_applicable, %d source commits" % (len(checks), len(not_applicable), len(commits)))
