#!/bin/bash
# tools/collect_seed.sh <worktree> <seed-id> : copy an agent's deliverables into /verif/seeded/<id>/
set -e
w=$1; id=$2; d=/verif/seeded/$id
mkdir -p "$d"
cp "$w/SEED/patch.diff" "$d/patch.diff"
cp "$w/SEED/demo.rs" "$d/demo.rs"
cp "$w/SEED/README.md" "$d/agent-README.md"
echo "collected $id: $(grep -c '^[-+]' "$d/patch.diff") changed lines, files: $(grep '^+++ ' "$d/patch.diff" | tr '\n' ' ')"
