import sys, json, glob, os
sys.path.insert(0,'/verif')
from cao.facts import *
def opnd(fn,o):
    if o is None: return 'None'
    if o['k'] in('copy','move'): return ('' if o['k']=='copy' else 'move ')+place_str(fn,o['place'])
    if o['k']=='const':
        if 'val' in o: return 'const %s'%o['val']
        if 'fn' in o: return 'fn '+short(o['fn']['path'])
        return 'const<%s>'%o.get('text',o['ty'])[:60]
    return o['k']
def rv_s(fn,rv):
    k=rv['k']
    if k=='use': return opnd(fn,rv['op'])
    if k in('ref','rawptr'): return '&%s %s'%(rv['mut'],place_str(fn,rv['place']))
    if k=='bin': return '%s(%s, %s)'%(rv['op'],opnd(fn,rv['l']),opnd(fn,rv['r']))
    if k=='un': return '%s(%s)'%(rv['op'],opnd(fn,rv['x']))
    if k=='cast': return '%s as %s [%s]'%(opnd(fn,rv['op']),rv['ty'][:40],rv['kind'])
    if k=='discr': return 'discr(%s)'%place_str(fn,rv['place'])
    if k=='agg':
        a=rv['agg']; n=a.get('path','')+'::'+a.get('variant','') if a['k']=='adt' else a['k']+' '+a.get('path','')
        return '%s(%s)'%(short(n),', '.join(opnd(fn,o) for o in rv['ops']))
    return k
def dump(fn, lo=0, hi=10**9):
    for bi,b in enumerate(fn.blocks):
        if not(lo<=bi<hi): continue
        print('bb%d%s:'%(bi,' (cleanup)' if b['cleanup'] else ''))
        for st in b['stmts']:
            if st['k']=='assign': print('    %s = %s   // %s'%(place_str(fn,st['place']),rv_s(fn,st['rv']),st.get('ln')))
            elif st['k'] in('live','dead'): pass
            else: print('    ',st['k'])
        t=b['term']; k=t['k']
        if k=='call':
            print('    %s = %s(%s) -> bb%s   // %s'%(place_str(fn,t['dest']), callee_names(t['func']) or 'INDIRECT '+opnd(fn,t['func'].get('indirect')), ', '.join(opnd(fn,a) for a in t['args']), t['target'], t['ln']))
        elif k=='switch': print('    switch %s %s else bb%s'%(opnd(fn,t['discr']), t['targets'], t['otherwise']))
        elif k=='assert': print('    assert(%s %s) -> bb%s'%(t['msg'], opnd(fn,t['cond']), t['target']))
        elif k=='drop': print('    drop(%s) -> bb%s'%(place_str(fn,t['place']),t['target']))
        else: print('    %s %s'%(k, t.get('target','')))
if __name__=='__main__':
    from cao import extract as _ex; F=Facts(_ex.get_facts(os.environ.get('REPO','/repo'),'default')[0])
    f=F.fn(sys.argv[1]); print(f.path, len(f.blocks))
    dump(f, int(sys.argv[2]) if len(sys.argv)>2 else 0, int(sys.argv[3]) if len(sys.argv)>3 else 10**9)
