#!/usr/bin/env python3
"""(Re)write /verif/seeded/<id>/meta.json and /verif/seeded/README.md from the descriptions below, the confirmation logs
(tools/confirm_seed.sh) and the last results of tools/run_seeded.py (checks.json)."""
import json, os
V = os.path.dirname(os.path.dirname(os.path.abspath(__file__)))
M = {
"C01-s1": ("C01", "Compiler::resolve_var picks the first (outermost) local of a name instead of the last (innermost): `position` instead of a reverse scan.", "A name bound twice in one function (nested loops sharing a counter name, or a loop variable named like a parameter/earlier local) and a read of that name in the inner scope.", "missed; new rule C01.V (innermost binding wins: direction and index base of the search over `locals`)"),
"C02-s1": ("C02", "RuntimeData::init_table creates tables with capacity 0 instead of 8, so the first insert into a fresh table allocates (and may collect) while native_minmax holds an unprotected fresh key string.", "A script calling min/max and a collection landing on the table's first growth allocation.", "missed; C02.R now follows an ObjectGcGuard moved into a generic `impl Into<Value>` parameter and decides the call sites with the capacity argument (cao/capacity.py)"),
"C05-s1": ("C05", "Allocator: threshold helper clamps next_gc to the limit and the `|| allocated > limit` collect condition is dropped; set_memory_limit no longer resets the threshold after storing the new limit.", "Lowering the limit of an existing VM to less than a quarter of its previous value, then allocating more than the new limit in total without a clear().", "caught at first run by C05.G"),
"C06-s1": ("C06", "Compiler::add_upvalue de-duplicates on `index` only (drops `&& val.is_local == is_local`).", "Closures nested two deep; the inner one names both a grandparent variable and a local of its direct parent with coinciding indices.", "missed; new rule C06.D (find-or-insert compares the whole descriptor)"),
"C07-s1": ("C07", "CaoHashMap::remove_with_hint backshift: cyclic `(i, j]` membership test replaced by `wrapping_sub % capacity` distances, wrong for non-power-of-two capacities when the chain wraps.", "A table grown past 8 slots (capacity 18), a removal in a probe chain that wraps the array end, then a read of the displaced key.", "first run: only through C12.H by luck; now C07.B = C12.B move-decision (exhaustive case analysis of the back-shift predicate, cao/backshift.py)"),
"C10-s1": ("C10", "IfElse: the Goto after the then-branch is skipped when the branch always returns, but the placeholder is still back-patched at `idx` (=0), overwriting bytes 0..4 of the program.", "An IfElse whose then-child ends in Return or Abort.", "missed; C10.J now also checks the converse (the placeholder is written on every path to its patch)"),
"C12-s1": ("C12", "CaoHashMap::remove_with_hint backshift: same distance-comparison rewrite as C07-s1 (independently produced).", "A remove of a key with followers in a probe chain that wraps past the end of a non-power-of-two bucket array.", "first run: C12.H by luck; now C12.B move-decision"),
"C13-s1": ("C13", "HandleTable::remove backshift loop stops at the first entry that sits in its own home slot.", "A remove on interleaved clusters: A,B,D with home h and C with home h+2; remove(A) hides D.", "missed; C13.R now requires the back-shift loop to be left only at an EMPTY slot and decides the move predicate by case analysis"),
"C15-s1": ("C15", "payload_to_error skips a call frame whose src_instr_ptr equals the previous frame's; direct recursion through one call card collapses to one trace entry.", "Direct recursion at least two deep through the same call card and any runtime error inside.", "missed; new rule C15.F (one trace entry per frame, no skipping)"),
"C16-s1": ("C16", "Module::swap_cards merges the probe and the replace of lhs after rhs was already replaced by the placeholder; nothing restores rhs on failure.", "swap_cards with exactly one invalid index that sorts after the valid one and is not its descendant.", "caught at first run by C16.A"),
"C17-s1": ("C17", "Vm::run cleanup `call_stack.clear()` becomes `call_stack.pop()`.", "A VM reused without clear(); ~254 runs that stop inside a function, or one CallStackOverflow run.", "missed; C17.F now distinguishes pop from clear (the interpreter loop can return with frames left)"),
"C18-s1": ("C18", "Vm::run_function's native-function-value branch calls `procedure.fun.call(self)` directly instead of call_native, losing the TaskFailure{name,..} wrapping.", "A native function used as a value, handed to a host function that re-enters through run_function, and the called-back native failing.", "missed; C18.W now has a who-may-call clause for VmFunction::call"),
"C03-s1": ("C03", "_run keeps the instruction budget in a local and writes it back to self.remaining_iters only around CallNative/Exit/Timeout; CallFunction of a native function value re-enters with a stale budget.", "A dynamic call of a native function value whose native calls back into a script, and a budget smaller than the total work.", "caught at first run by C03.B"),
"C04-s1": ("C04", "CaoLangTable::iter() `.expect(\"keys and map are in sync\")` instead of skipping keys that are not found.", "A table with a NaN key, or a table key mutated after insertion, then anything that iterates the table.", "missed; new rule C04.K (no unwrap on lookups keyed by script values) - which also exposed a genuine defect (min/max panic on a NaN key, fixed in fda9dfa)"),
"C08-s1": ("C08", "function_to_function_ir derives the function handle from the name segments hashed back to back (from_bytes_iter) instead of the position in the flattened output.", "Two functions whose path segments concatenate to the same string (`ab.c` / `a.bc`).", "first run: only C06.X (by luck); new rule C08.H (function handles are injective)"),
"C09-s1": ("C09", "native_minmax rewritten with Iterator::min_by / max_by; max_by returns the LAST of equal maxima.", "max / max_by_key over a table with at least two rows tied for the largest key, looking at the returned key.", "missed; new rule C09.F (ties resolved in favour of the first row)"),
"C11-s1": ("C11", "HandleTable::shrink_to_fit (adjust_capacity(count)) called by the serde visitor when the format gives no size hint: a decoded table with 2^k items has no empty slot.", "JSON round trip of a program whose labels/variables table holds exactly a power-of-two count, then a lookup of an absent handle (hangs).", "missed; new rules C13.K/C12.K, shared as C11.K/L (every resize leaves a free slot, exhaustive evaluation over small states)"),
"C14-s1": ("C14", "ValueStack::set inlines the push for index == height with a `count >= len` fullness check and returns the stale slot.", "A stack filled to capacity-1 and written through set at the height; or clear_until followed by set at the new height and a look at the returned old value.", "missed; C14.B now compares every height-raising site with push's admission condition"),
"C19-s1": ("C19", "PartialEq for CaoLangObject tables becomes lookup based (order-insensitive) while Hash stays order-sensitive.", "Two tables with the same rows inserted in a different order, one used as a key of another table.", "missed; new rule C19.T (table eq and hash agree on row order)"),
"C01-s2": ("C01", "Repeat: the hidden loop counter gets the user's loop-variable name and the per-iteration copy is removed.", "A Repeat with a named loop variable whose body assigns to that variable.", "missed; new rule C01.L (loop control state is hidden from scripts)"),
"C02-s2": ("C02", "gc: 'scan once' optimisation sets every scanned object Black, overwriting Protected; the unmark phase whitens it.", "An object reachable only through a guard and two collections while that guard is alive.", "missed; new rule C02.K (the collector never overwrites Protected) - which also exposed a genuine defect (roots on the stack lose their protection, fixed in 5333987)"),
"C05-s2": ("C05", "CaoLangAllocator::alloc returns a dangling pointer for zero-sized layouts before charging, dealloc still refunds size+align.", "An empty string that is collected or cleared, then clear + a new allocation (counter underflow) or enough of them against the limit.", "missed; C05.A now requires the charge to dominate every Ok return of alloc and the refund every return of dealloc"),
"C10-s2": ("C10", "encode_str clamps the payload to 252 bytes at a byte offset (not a char boundary).", "A string literal longer than 252 bytes with a multi-byte character crossing byte 252.", "caught at first run by C10.S"),
"C03-s2": ("C03", "_run decrements the budget first and tests for zero afterwards; run/run_function reject an empty budget at entry.", "A host function that calls back into the interpreter and swallows the callback's Timeout; the outer loop then resumes with a zero budget (underflow: panic in debug, practically unlimited in release).", "caught at first run by C03.Z"),
"C04-s2": ("C04", "ValueStack::set writes `data[index]` directly and bumps the height for index == height, without push's capacity check.", "The value stack running out exactly while begin_for_each creates its hidden locals with consecutive set calls: index out of bounds panic inside run.", "missed by C04 (C14.B caught it); C14.B is now shared into C04 as C04.H"),
"C06-s2": ("C06", "register_upvalue always makes a new open upvalue the head of the list instead of inserting it at its sorted position.", "Captures registered in ascending slot order onto a list that does not hold the lower slot yet, closures used after the scope ended.", "missed; C06.N now requires the new node's `next` to be the search cursor and the head to be replaced only when the search found no predecessor. The agent's aside led to a genuine defect (CloseUpvalue did not release the slot: two captured locals in one block, fixed in 30a7d89)"),
"C07-s2": ("C07", "CaoLangTable::append skips the `map.contains` probe when the last inserted key is Integer(len - 1) (array-like fast path).", "A table whose last inserted key is len-1 while key len is already present (t[2]=a; t[1]=b; append), then the append overwrites t[len].", "missed; new rule C07.A (the insert of append is dominated by the absent edge of map.contains(key))"),
"C08-s2": ("C08", "resolve_function: the function-import lookup became `current_imports.get(function)` and lost its `if to.is_none()` guard.", "A bare call name that is both a function of the module (or root) and the key of a function import.", "caught at first run by C08.O"),
"C09-s2": ("C09", "native_sorted compares keys as f64 with total_cmp instead of Value::partial_cmp.", "Integer keys above 2^53 that differ below the f64 spacing.", "missed; new rule C09.S (the comparator is Value's own ordering on the unconverted keys, stable sort, ascending)"),
"C11-s2": ("C11", "OwnedEntry.value gets `#[serde(default, skip_serializing_if = ..)]`.", "A bincode round trip of a table with a nil value (positional format: the following bytes are read as the missing field).", "missed; C11.S now requires each field's serialize_field call to be unconditional"),
"C12-s2": ("C12", "CaoHashMap::adjust_capacity zeroes `count` before the fallible allocation.", "An allocation failure exactly at a growth step of a non-empty map, then len()/remove.", "caught at first run by C12.E"),
"C13-s2": ("C13", "HandleTable growth test moved into a helper; insert() passes `count` instead of `count + 1` (grows one insert too late).", "A table of capacity 2 filled with two inserts, then any operation on an absent handle (probes forever).", "missed; new rules C13.F / C12.F (when the growth test declines, a free slot remains after the insertion: the test expression is evaluated over all small states)"),
"C14-s2": ("C14", "ValueStack::last reads `data[count.saturating_sub(1)]`.", "A stack emptied by pop_n / clear_until (slots not cleared), then last() / clear_until.", "reported by the new C14.N, which was written an hour earlier for the genuine defect the agent mentioned as an aside (pop had the same flaw, fixed in 79b786c)"),
"C15-s2": ("C15", "ForEach: push_subindex(1) moved out of the closure so it wraps the whole encode_if_then call.", "An empty loop-variable name (compile error), or stack exhaustion / timeout landing on the per-iteration copies of the loop registers.", "missed; new rule C15.G (a card's own instructions are emitted at its own index) - which showed that While/IfTrue/IfFalse/IfElse already did what the seed introduced for ForEach (genuine defect, fixed in 945e78c)"),
"C17-s2": ("C17", "RuntimeData::clear: `global_vars.fill(Value::Nil)` instead of `clear()`.", "An earlier run that assigned k+1 globals, clear(), then a read of a global id <= k before it is assigned.", "missed; new rule C17.E (what clear does to each collection restores the fresh state)"),
"C18-s2": ("C18", "TryFrom<Value> for Nilable<T> turns a failed inner conversion into None (`.ok()`).", "A host function with a Nilable<&str>/table parameter receiving a non-nil argument of the wrong kind.", "missed; new rule C18.C (nested conversions in TryFrom<Value> impls are propagated)"),
"C19-s2": ("C19", "Value::eq gets an Integer/Real arm (`i as f64 == r`), Hash unchanged.", "An integer and an integral real of the same value used as table keys; transitivity above 2^53.", "missed because C19.E ignored or-patterns; fixed (each alternative is an arm), cross-kind true arms are reported"),
"C16-s2": ("C16", "Card::remove_child, DynamicCall arm: guard `i < len` instead of `i - 1 < len`.", "Removing the last argument of a DynamicCall.", "caught at first run by C16.S"),
}
# round 3: the first run was done through the self-test harness; these were not reported by the targeted property then
CAUGHT_AT_FIRST_RUN = {
    "C05-s1": ["C05/G/alloc/oom-after-gc"], "C12-s1": ["C12/H/remove_with_hint/home-slot-differs"], "C16-s1": ["C16/A/swap_cards/error-paths-restore"],
    "C03-s1": ["C03/B/_run/budget-is-per-vm"], "C10-s2": ["C10/S/encode_str/payload"], "C16-s2": ["C16/S/remove_child/DynamicCall"],
    "C03-s2": ["C03/Z/_run/decrement-guarded"], "C08-s2": ["C08/O/resolve_function/documented-order", "C08/O/resolve_function/later-lookups-only-on-miss"],
    "C12-s2": ["C12/E/adjust_capacity/alloc-before-mutation", "C12/E/adjust_capacity/no-other-failure-after-mutation"],
    "C14-s2": ["C14/N/ValueStack::last/read-is-below-height"],
}
rows = []
for sid, (p, what, needs, story) in sorted(M.items()):
    d = os.path.join(V, "seeded", sid)
    log = open(os.path.join(d, "confirm.log")).read().strip().split("\n") if os.path.exists(os.path.join(d, "confirm.log")) else []
    chk = json.load(open(os.path.join(d, "checks.json"))) if os.path.exists(os.path.join(d, "checks.json")) else {"reported": {}}
    old = json.load(open(os.path.join(d, "meta.json"))) if os.path.exists(os.path.join(d, "meta.json")) else {}
    first = old.get("reported_at_first_run", chk["reported"] if "reported_at_first_run" not in old else {})
    # authoritative record of the first run of the targeted property's check against each seed
    if sid in CAUGHT_AT_FIRST_RUN:
        first = {p: CAUGHT_AT_FIRST_RUN[sid]}
    else:
        first = {k: v for k, v in first.items() if k != p} if isinstance(first, dict) else {}
        if sid not in ("C07-s1", "C08-s1"):
            first = {}
        else:
            first = {"C07-s1": {"C12": ["C12/H/remove_with_hint/home-slot-differs"]}, "C08-s1": {"C06": ["C06/X/process_card[Closure]/label-components-cannot-cancel"]}}[sid]
    meta = {"id": sid, "property": p,
            "origin": "fresh sub-agent given only the property text and a scratch worktree of /repo",
            "change": what, "needs_to_manifest": needs,
            "demonstration": "demo.rs (cargo integration test cao-lang/tests/seed_demo.rs, public API only)",
            "confirmed_by": "tools/confirm_seed.sh %s in a scratch worktree under /tmp (removed afterwards): cargo test --workspace --no-fail-fast --offline with the change (existing suite), cargo test -p cao-lang --offline --test seed_demo with and without the change" % sid,
            "confirm_log": log,
            "checks_run": "tools/run_seeded.py %s (git -C /repo apply; ./check C01..C19 --no-evidence --json; git -C /repo checkout -- .)" % sid,
            "reported_at_first_run": first, "reported_now": chk["reported"], "history": story}
    json.dump(meta, open(os.path.join(d, "meta.json"), "w"), indent=1)
    now = chk["reported"]
    tgt = now.get(p, [])
    others = {k: v for k, v in now.items() if k != p}
    rows.append((sid, p, what, needs, "yes" if (first.get(p)) else "no", ", ".join(tgt) or "MISSED", "; ".join("%s: %s" % (k, ", ".join(v)) for k, v in others.items()) or "-", story))
with open(os.path.join(V, "seeded", "README.md"), "w") as fh:
    fh.write("# Seeded changes\n\nEach directory holds one change produced by a fresh sub-agent that saw only the text of one property and its own scratch\n"
             "worktree of /repo (nothing from /verif): `patch.diff` (the library change), `demo.rs` (a test that fails with the change and passes\n"
             "without it), `agent-README.md` (the agent's own notes), `confirm.log` (my confirmation run: builds, the existing suite passes with the\n"
             "change, the demo fails with it and passes without), `checks.json` (which rule instances of which property report it) and `meta.json`.\n"
             "None of these changes is committed to /repo. To re-run: `tools/confirm_seed.sh <id>` and `tools/run_seeded.py [id..]`.\n"
             "They are also part of the self-test (`selftest/index.json`, names `seed-<id>`), so the thorough tier re-checks that each is still reported.\n\n"
             "%d changes, %d reported by the targeted property's check at the first run, %d now.\n\n" % (
                 len(rows), sum(1 for r in rows if r[4] == "yes"), sum(1 for r in rows if r[5] != "MISSED")))
    fh.write("| id | change | needs | caught at first run | reported now by (target property) | also reported by | what was done |\n|---|---|---|---|---|---|---|\n")
    for r in rows:
        fh.write("| %s | %s | %s | %s | %s | %s | %s |\n" % (r[0], r[2].replace("|", "\\|"), r[3].replace("|", "\\|"), r[4], r[5].replace("|", "\\|"), r[6].replace("|", "\\|"), r[7].replace("|", "\\|")))
print("wrote", len(rows))
