#!/usr/bin/env python3
"""Add patch files of selftest/ that are not in selftest/index.json yet: the property comes from the file name, the kind
from 'eq' in the name; for a mutant the expected keys are the keys the property's check reports on it now (printed for
review). Also (re)registers the seeded changes listed on the command line:  tools/index_new_patches.py [--seeds id,id,..]"""
import json, os, sys, glob, re
V = os.path.dirname(os.path.dirname(os.path.abspath(__file__)))
sys.path.insert(0, V)
from cao import selftest as st

def prop_of(name):
    m = {"fix-tables-c12": "C12", "fix-tables-c13": "C13", "rev-a840e9f": "C01", "rev-e7c70ea": "C18", "eq-fix-c02": "C02"}
    for k, v in m.items():
        if name.startswith(k): return v
    if name.startswith("fix-tables-c07"):
        return "C07"
    if name.startswith("fix-c01c06"):
        return "C06" if any(x in name for x in ("find-helper", "return-", "upvalue", "closure-label", "drop-instruction")) else "C01"
    if name.startswith("fix-c08c10"):
        return "C10" if "bytecode" in name else "C08"
    if name.startswith("fix-c09c18"):
        return "C18" if "peek" in name else "C09"
    mm = re.match(r"fix-(c\d\d)-", name)
    if mm: return mm.group(1).upper()
    return None

idxp = os.path.join(V, "selftest", "index.json")
idx = json.load(open(idxp))
have = set(m["patch"] for m in idx["mutants"])
todo = []
for p in sorted(glob.glob(os.path.join(V, "selftest", "*.diff"))):
    b = os.path.basename(p)
    if b in have: continue
    pr = prop_of(b)
    if pr is None:
        print("skip (no property):", b); continue
    kind = "equivalent" if (b.startswith("eq-") or "-eq-" in b) else "mutant"
    todo.append({"name": b[:-5], "property": pr, "patch": b, "kind": kind})
seeds = []
if "--seeds" in sys.argv:
    seeds = sys.argv[sys.argv.index("--seeds") + 1].split(",")
for sid in seeds:
    rel = "../seeded/%s/patch.diff" % sid
    idx["mutants"] = [m for m in idx["mutants"] if m["patch"] != rel]
    todo.append({"name": "seed-" + sid, "property": sid.split("-")[0], "patch": rel, "kind": "mutant"})
cache = {}
res = st.run_many([dict(t, expect=[]) for t in todo], cache)
for t, r in zip(todo, res):
    rep = r.get("reported", [])
    if t["kind"] == "mutant":
        if not rep:
            print("NOT REPORTED, not indexed:", t["name"], r["detail"][:200]); continue
        t["expect"] = rep
    else:
        if not r["pass"]:
            print("EQUIVALENT NOT SILENT, not indexed:", t["name"], r["detail"][:200]); continue
    print("%-10s %-4s %-60s %s" % (t["kind"], t["property"], t["name"], t.get("expect", "")))
    idx["mutants"].append(t)
json.dump(idx, open(idxp, "w"), indent=1)
